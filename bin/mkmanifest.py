#!/usr/bin/env python3
"""Regenerates MANIFEST.json from the claims below (run after adding a property)."""
import json
V = "/verif"
CLAIMS = {
 "C05": {
  "text": "Machine-checked theorems (Coq 8.16.1, closed under the global context) over an executable Gallina model of files.PrepareForPackager, glob.Glob's destination mapping and the path normalisers: every successful plan has unique, sorted, clean absolute destinations, parents before children, one entry per location, nothing beneath a non-directory, only relevant entries (C05_plan_wellformed), plus normaliser shape/idempotence. The model is tied to /repo on every run by differential execution (extracted OCaml model vs the real public API on the same inputs and oracle answers: bounded-exhaustive singles/pairs, all path spellings to length 7/9, seeded triples and random lists) and the extracted boolean checker holds_C05 is evaluated on the implementation's own output.",
  "note": "Trusted: Coq kernel, extraction (ExtrOcamlBasic, ExtrOcamlNativeString), OCaml driver, Go harness/oracle collectors, translators for Gen/FsPaths.v. Modelled not verified: fileglob and the OS (oracle record); WalkDir visits directories before their contents (hypothesis oracle_okb, checked per case). Placement completeness and collision/error soundness are decided by the checker on the implementation and by correspondence, not yet by theorem.",
 },
 "C01": {
  "text": "Theorem C01_payload_fidelity (closed under the global context): for all five formats and every content list, oracle, umask and mtime, the payload written by the Gallina transcription of the five packagers' payload writers for the plan computed by the planning model states exactly what the plan denotes (paths exact and unique; files: 12-bit mode, owner, group, mtime, source bytes; directories: mode, owner, group; symlinks: target; rpm ghosts header-only, no implied directories). Tie: every run packages generated YAML configurations through the real Parse/Get/WithDefaults/Package pipeline in all five formats, decodes the packages with independent readers, compares the decoded payload entry by entry with the extracted model and evaluates the extracted checker check_C01 on the decoded payload.",
  "note": "Trusted: Coq kernel, extraction, OCaml driver, Go harness incl. the decoders (own ar/rpm/cpio readers, stdlib tar/gzip, xz, zstd) and SHA-256 of decoded bytes. Envelope: modes below 0o10000, no non-directory entry at '/', WalkDir order. Compressors, tar/cpio byte encoders and chglog are modelled by their decoded effect, not verified. Directory and symlink mtimes are not part of C01.",
 },
 "C08": {
  "text": "Theorems (closed): conffiles lists a path iff a config* entry is planned at it (C08_conffiles_iff_declared, any plan with valid keys); every rpm header entry carries exactly the flag bits its declared type demands, ghosts and only ghosts have no payload, ghost default mode 0644 (C08_rpm_flags_exact, all 13 prepared types by computation lifted over the type enumeration); glob expansion inherits the config type. Tie: the exhaustive (14 entry types x 6 packager tags) matrix and config-glob expansions packaged in all five formats from one parsed configuration in rotating order, decoded conffiles / rpm FILEFLAGS / .PKGINFO backup lines compared with the extracted model and judged by the extracted checker check_C08.",
  "note": "Trusted: Coq kernel, extraction, OCaml driver, Go harness and decoders. apk has no configuration-file notion and is only checked for absence of rpm-only entries (through C01).",
 },
 "C09": {
  "text": "Theorems (closed): per-format event->slot tables are injective both ways; a slot is populated with exactly the configured bytes iff its event is configured; the deb/ipk/apk/archlinux packager models embed every script verbatim for all byte strings (C09_verbatim_all_bytes); rpm verbatim for non-empty NUL-free scripts (C09_rpm_verbatim_partial) and refuted otherwise (C09_rpm_refuted, known findings C09-K1/K2). Tie: every subset of every format's slots (exhaustive) with pairwise distinct binary bytes, other formats' slots populated, each configuration also run once per missing script file and again intact; decoded control members / scriptlet tags / .INSTALL compared with the extracted model and checker check_C09.",
  "note": "Trusted: Coq kernel, extraction, OCaml driver, Go harness and decoders. The .INSTALL member is compared as a whole with the rendering (function wrappers in sorted order); scriptlet interpreter tags (/bin/sh) are not checked.",
 },
 "C03": {
  "text": "Every digest, checksum and size a package stores about itself (deb md5sums and Installed-Size; apk datahash, PAX SHA-1 checksums, size; archlinux .MTREE time/mode/size/md5/sha256/link per entry and .PKGINFO size; rpm header SHA-256, payload digest, per-file SHA-256, file sizes, archive and payload size tags; ipk Installed-Size) is recomputed from the bytes the independent decoders extract and compared with the stored value, on payload shapes from empty to multi-MiB under every compression setting; the extracted checker check_C03 decides which stored value must equal which recomputed one. Theorems (closed) fix the structure: one md5sums line per regular payload file with that member's name and digest, in payload order; the KiB estimate; a deb carrying the model's md5sums and estimate passes the checker for every payload.",
  "note": "Honest weight: the theorems are about structure (which stream, name, order); hash functions are parameters and the equality of stored and recomputed digests is established by recomputation on generated inputs, not by proof. The apk 'hash taken under the gzip layer' dataflow is covered by recomputing SHA-256 of the data segment as shipped. Trusted: Coq kernel, extraction, OCaml driver, Go harness, decoders, Go crypto/*.",
 },
 "C04": {
  "text": "Every generated package is read end to end by readers that share nothing with the writers' call sites (own ar, rpm lead/header, cpio-newc, mtree readers; stdlib tar/gzip; xz, zstd): member order, debian-binary content, compression name vs stream, 8-byte signature alignment, cpio entries = header file list minus ghosts and sorted, apk segments 512-aligned with cut control/signature segments and a complete data tar whose concatenation reads as one tar with .PKGINFO first, ipk nesting, archlinux .MTREE listing .PKGINFO first and .INSTALL iff scripts. The extracted checker check_names decides uniqueness, relativity, './' prefix, '..' freedom, directory slashes and parents-before-children of every tar's names. Theorem C04_tar_names_wellformed_partial (closed): for every plan the payload model's names satisfy all of those clauses except parents-before-children (not yet a theorem).",
  "note": "PARTIAL at the theorem level: parents-before-children and the container layouts (ar, apk cut/full segments, rpm alignment) are decided by the decoders and the checker on generated packages, not proved; compressed streams are judged by independent decompressors. Trusted: Coq kernel, extraction, OCaml driver, Go harness and decoders.",
 },
 "C02": {
  "text": "The control metadata each packager renders is modelled as Gallina functions from the document's values (WithDefaults' semver split, per-packager defaults, architecture translation, deb/ipk control templates with join / nonEmpty / multiline incl. bufio.Scanner's 64 KiB limit, apk and archlinux .PKGINFO, rpm tags with rpmpack's relation parser, addIfMissing and self-provide) and compared on every run BYTE FOR BYTE with the control / .PKGINFO member of packages built through the real pipeline (rpm: tag by tag). The extracted checker check_C02 judges the independently parsed fields (name, composed version, documented architecture translation or override, maintainer/vendor/homepage/license/section/priority, synopsis, recovered description lines, every relation list complete and in order under its own tag, extras iff configured, no duplicate keys). Theorems (closed): Debian unfolding inverts the multiline printer for all descriptions without a '.' line (C02_description_recovered; refuted otherwise), overrides verbatim; instance obligations re-proved on every run over the regenerated tables: every documented GOARCH x format row equals the code's translation, all five formats documented, translation idempotent.",
  "note": "Known findings C02-K1 (archlinux pkgver drops the prerelease), K2 ('.' line), K3 (64 KiB line). Trusted: Coq kernel, extraction, OCaml driver, Go harness/decoders, translators/arch.go (go/ast + markdown rows). text/template, rpmpack's header encoding and chglog are modelled by their output. ASCII white space only.",
 },
 "C14": {
  "text": "Theorems (closed): the semver parser is lossless - every accepted string decomposes byte for byte into [v] major[.minor][.patch][-prerelease][+metadata] with the reported prerelease and metadata (C14_semver_split_lossless); under the Gallina port of dpkg's verrevcmp, for EVERY common prefix U, U~R sorts strictly before U and before U+..., lifted to whole version strings with equal epochs (C14_dpkg_prerelease_sorts_first, by induction over the digit/non-digit segments of U, no bound); any higher epoch sorts after any lower one for dpkg and rpm. Tie: 4 000 (thorough 60 000) grammar-generated versions and near misses through the real nfpm.WithDefaults against the model of Masterminds/semver + parseSemver; version fields decoded from real deb/ipk/rpm packages for a prerelease build, its release, a higher epoch and a higher patch level judged by the ports of dpkg's and rpm's comparison; the dpkg port validated against `dpkg --compare-versions` on random pairs.",
  "note": "The rpm prerelease ordering and numeric ordering are decided by the checker on real package fields, not by theorem; the rpmvercmp port has no external judge on this image. Trusted: Coq kernel, extraction, OCaml driver, Go harness and decoders, dpkg.",
 },
}
TECH = "Rocq proof over hand-written Gallina model + extraction-based correspondence check against the Go implementation"
props = [json.loads(l) for l in open(V + "/properties.jsonl")]
checks, na = [], []
for p in props:
    pid = p["id"]
    if pid in CLAIMS:
        c = CLAIMS[pid]
        checks.append({"property_id": pid, "quick_cmd": "bin/check %s quick" % pid, "thorough_cmd": "bin/check %s thorough" % pid,
                       "evidence_file": "/verif/evidence/%s.json" % pid, "replay_cmd_template": "bin/check %s --replay {path}" % pid,
                       "engine": "rocq-model-correspondence",
                       "level_claimed": {"category": "proof", "text": c["text"], "design_ref": "DESIGN.md section 6, " + pid},
                       "level_note": c["note"], "technique": c.get("technique", TECH)})
    else:
        na.append({"property_id": pid, "reason": "check not built yet at this revision (planned: DESIGN.md section 6); not a claim that the technique cannot apply"})
import subprocess
fixes = subprocess.run(["git", "-C", "/repo", "log", "--format=%h %s", "--grep=^fix:"], capture_output=True, text=True).stdout.strip().split("\n")
m = {"version": 1, "setup_cmd": "bin/setup",
     "hooks": {"guard": "verif", "enable": "go build -tags verif (the harness module replaces github.com/goreleaser/nfpm/v2 with /repo's working tree)",
               "baseline_off_cmd": "cd /repo && go test -mod=mod -vet=off -count=1 ./...", "source_commits": [], "add_only": True},
     "engines": [{"name": "rocq-model-correspondence", "path": "/verif/bin/check", "serves_properties": [c["property_id"] for c in checks],
                  "kind_free_text": "Coq 8.16.1 development (coq/), extracted OCaml model + driver (ocaml/), Go differential harness (harness/), Go translators regenerating coq/Gen (translators/)"}],
     "checks": checks, "not_applicable": na,
     "notes": "fix: commits in /repo (see known_findings.json): " + "; ".join(fixes) + ". No hooks are needed so far: every observation goes through the public API."}
json.dump(m, open(V + "/MANIFEST.json", "w"), indent=1)
print("claimed:", [c["property_id"] for c in checks])
