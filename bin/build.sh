#!/bin/bash
# Rebuild everything a check needs from files on disk and from $VERIF_REPO's working tree.
# usage: bin/build.sh [gen] [coq] [ocaml] [harness]   (default: all). Serialised by a lock.
set -u
V=${VERIF_DIR:-$(cd "$(dirname "$(readlink -f "$0")")/.." && pwd)}
REPO=${VERIF_REPO:-/repo}
export GOFLAGS=-mod=mod GOPROXY=off GOSUMDB=off GOTOOLCHAIN=local CGO_ENABLED=0
what="${*:-harness gen coq ocaml}"
mkdir -p $V/work
exec 9>$V/work/.build.lock
flock 9
rc=0
for w in $what; do
case $w in
gen)
  ( cd $V/translators && { [ bin/gen -nt main.go ] && [ bin/gen -nt arch.go ] && [ bin/gen -nt nondet.go ] && [ bin/gen -nt slots.go ] && [ bin/gen -nt rpmflags.go ] && [ bin/gen -nt strfn.go ] && [ bin/gen -nt expand.go ] && [ bin/gen -nt withdefaults.go ] || go build -o bin/gen . ; } ) || { echo "BUILD-FAIL translators"; rc=1; }
  $V/translators/bin/gen "$REPO" $V/coq/Gen > $V/work/gen.log 2>&1 || { echo "GEN-FAIL (see work/gen.log)"; cat $V/work/gen.log; rc=1; }
  if [ -x $V/harness/bin/harness ]; then
    VERIF_REPO="$REPO" timeout 600 $V/harness/bin/harness GEN --out $V/coq/Gen >> $V/work/gen.log 2>&1 || { echo "GEN-FAIL harness GEN (see work/gen.log)"; tail -5 $V/work/gen.log; rc=1; }
  fi
  ;;
coq)
  cd $V/coq
  ( ls Lib/*.v Model/*.v Spec/*.v Proofs/*.v Properties/*.v Gen/*.v 2>/dev/null | sort > work_files.txt; { echo "-R . NfpmV"; cat work_files.txt; } > _CoqProject.new; cmp -s _CoqProject.new _CoqProject || { mv _CoqProject.new _CoqProject; coq_makefile -f _CoqProject -o Makefile > /dev/null; }; rm -f _CoqProject.new work_files.txt; [ -f Makefile ] || coq_makefile -f _CoqProject -o Makefile > /dev/null )
  timeout 3000 make -k -j16 > $V/work/coq.log 2>&1 || { echo "COQ-FAIL (see work/coq.log)"; rc=1; }
  ;;
ocaml)
  mkdir -p $V/ocaml/extracted $V/ocaml/_build
  cd $V/ocaml/extracted
  if [ ! -f model.ml ] || [ -n "$(find $V/coq -name '*.vo' -newer model.ml 2>/dev/null | head -1)" ] || [ $V/coq/Extract.v -nt model.ml ]; then
    timeout 600 coqc -R $V/coq NfpmV $V/coq/Extract.v > $V/work/extract.log 2>&1 || { echo "EXTRACT-FAIL (see work/extract.log)"; rc=1; }
    rm -f $V/coq/Extract.vo $V/coq/Extract.glob $V/coq/.Extract.aux
  fi
  cd $V/ocaml/_build
  if [ ! -x driver ] || [ ../extracted/model.ml -nt driver ] || [ -n "$(find .. -maxdepth 1 -name '*.ml' -newer driver | head -1)" ]; then
    cp ../extracted/model.ml ../extracted/model.mli ../*.ml . && \
    ocamlfind ocamlopt -O3 -w -a -package str,unix -linkpkg model.mli model.ml $(cd ..; ls *.ml | grep -v '^driver.ml$' | sort) driver.ml -o driver > $V/work/ocaml.log 2>&1 || { echo "OCAML-FAIL (see work/ocaml.log)"; rc=1; }
  fi
  ;;
harness)
  cd $V/harness
  sed "s|@REPO@|$REPO|" go.mod.tmpl > go.mod && cp "$REPO/go.sum" go.sum
  mkdir -p bin
  go build -tags verif -o bin/harness . > $V/work/harness.log 2>&1 || { echo "HARNESS-FAIL (see work/harness.log)"; cat $V/work/harness.log | head -30; rc=1; }
  # the same harness under the race detector (C12's child process)
  if [ -z "${VERIF_NO_RACE:-}" ]; then CGO_ENABLED=1 go build -race -tags verif -o bin/harness-race . >> $V/work/harness.log 2>&1 || { echo "HARNESS-FAIL race build (see work/harness.log)"; rc=1; }; fi
  ;;
esac
done
exit $rc
