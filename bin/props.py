"""Per-property configuration of bin/check."""

COMMON_TB = [
    "Coq 8.16.1 kernel (coqc, full .vo build via coq_makefile; vm_compute used only for finite-domain instance lemmas; no native_compute)",
    "extraction: ExtrOcamlBasic + ExtrOcamlNativeString (byte -> char, string -> OCaml string) + one hand-written directive: Extract Constant List.rev => OCaml List.rev; N/Z/positive/nat stay Coq's inductives; OCaml 4.13.1; ocaml/driver.ml",
    "Go harness (harness/*.go): generators, oracle collection with os.* and fileglob.*, projection of observations; translators/*.go for coq/Gen/*.v",
]

PROPS = {
    "C05": {
        "level": "proof",
        "shrink_field": "entries",
        "rule": ("cases = every destination spelling over {/ . a} up to the length bound (path helpers and, through one symlink entry, parent creation), "
                 "all singles and all ordered pairs over a universe of 7 entry kinds x destinations x packager tags, seeded triples, and seeded random lists "
                 "of 1-6 entries over 26 kinds x 15 destinations x 7 packager tags x 4 file_info shapes, each prepared 3 times; "
                 "distinct = distinct (umask, packager, mtime, globbing, entry list); non-trivial = at least two entries"),
        "trusted_base": COMMON_TB + [
            "modelled, not verified: fileglob matching and the file system (oracle answers collected by the harness: match lists, stat, readlink, WalkDir listing)",
            "component-level model of filepath.Clean/Join/Dir/Base/Rel and of sortedParents, validated on all spellings over {/ . a} up to length 7 (quick) / 9 (thorough)",
        ],
        "assumptions": ["source tree is not modified while a case runs", "os.Stat/Readlink/WalkDir answers are the same for the harness and for nFPM within one case"],
    },
}

PKG_TB = COMMON_TB + [
    "independent decoders in the harness (harness/decode.go): own ar / rpm lead+header / cpio-newc / mtree / deb822 readers, stdlib archive/tar + compress/gzip, ulikunitz/xz, klauspost/zstd; SHA-256 of decoded bytes",
    "modelled, not verified: compressors, the tar/cpio byte encoders of the Go standard library and rpmpack (observed through the decoders), chglog rendering",
]

PROPS["C01"] = {
    "level": "proof", "harness": "C01", "driver": "C01",
    "rule": ("cases = generated configurations (YAML text through the real Parse -> Get -> WithDefaults -> Package pipeline) x 5 formats; contents: 12 entry shapes incl. globs, trees, "
             "symlinks, ghosts, rpm-only types, per-entry packager tags, 5 file_info shapes incl. setuid/sticky modes and per-entry mtimes, 4 umasks, every compression setting; "
             "distinct = distinct YAML documents; non-trivial = at least two content entries"
             " Fixed shapes besides: special mode bits on files of 2.25 MiB, backslashes in names, one place under two spellings, a glob or tree followed by a config entry for one match, a user file at the deb changelog path, undated changelog, sub-second source mtimes without a package mtime, umask 0777 / 0700, owner names of 40 bytes; some sources owned by another user than the builder; per format a build that fails half way followed by an ordinary one; build-host variables (PACKAGER, DEBEMAIL ...) set in the process."),
    "trusted_base": PKG_TB,
    "assumptions": ["explicit modes are below 0o10000 (the generator's envelope)", "sources are not modified during a case"],
}

KF_PREDICATES = {}

PROPS["C08"] = {
    "level": "proof", "harness": "C08", "driver": "C08", "exhaustive": True,
    "rule": ("cases = the full (entry type x packager tag) matrix, 14 types x 6 tags, packaged in all five formats (exhaustive), "
             "config globs expanding one entry to many files (3 config types x 5 sources x 2 file_info shapes) with ghosts, plus generated configurations; "
             "distinct = distinct YAML documents; non-trivial = at least two content entries"),
    "trusted_base": PKG_TB, "assumptions": [],
}
PROPS["C09"] = {
    "level": "proof", "harness": "C09", "driver": "C09", "exhaustive": True,
    "rule": ("cases = every subset of the script slots of each format (deb 2^7, ipk 2^4, rpm 2^7, apk 2^6, archlinux 2^6) with pairwise distinct random bytes "
             "(binary, no trailing newline, braces, and with probability 1/12 empty or NUL-containing), other formats' slots populated at random, random umask; plus generated configurations in all formats; "
             "distinct = distinct YAML documents; non-trivial = at least two content entries or two scripts"),
    "trusted_base": PKG_TB, "assumptions": [],
}

PROPS["C03"] = {
    "level": "proof", "harness": "C03", "driver": "C03",
    "rule": ("cases = payload shapes at the edges (empty payload, total size 0 from symlinks/directories/empty files, files of 300 KiB and 2.25 MiB under every deb and rpm compression setting, "
             "trees, directories with their own mtime) plus generated configurations, x 5 formats from one parsed config; every stored digest and size is recomputed from the decoded bytes; "
             "distinct = distinct YAML documents; non-trivial = at least two content entries"
             " The fixed shapes of C01 besides; a deb changelog next to fillers of eight sizes modulo 1024; per format a failing build followed by an ordinary one."),
    "trusted_base": PKG_TB + ["hash functions: Go crypto/md5, sha1, sha256 applied by the harness to decoded bytes"], "assumptions": [],
}
PROPS["C04"] = {
    "level": "proof", "harness": "C04", "driver": "C04",
    "rule": ("cases = names at the edges (dot-prefixed first components beside undotted siblings, names sorting before .PKGINFO, 10-level nesting, names beyond the ustar limits, non-ASCII names, entries at the root), control members whose size is 511/512/513/1024/4096 bytes, rpm payload archives (<= 64 KiB) re-encoded by the cpio container model (driver_summary.cpio_archives_reencoded counts them), "
             "plus generated configurations with every compression setting, x 5 formats; each package is read end to end by the independent decoders; "
             "distinct = distinct YAML documents; non-trivial = at least two content entries"
             " Signed packages with dpkg-sig roles of 7 to 17 bytes and every debsign type."),
    "trusted_base": PKG_TB, "assumptions": [],
}

PROPS["C02"] = {
    "level": "proof", "harness": "C02", "driver": "C02",
    "rule": ("cases = generated configurations (14 architectures incl. every documented GOARCH and per-format overrides, semver and free-form versions with all combinations of epoch / prerelease / metadata / release, "
             "unicode / multi-line / blank-line / CRLF / dot-line / 70 KB-line descriptions, relation lists of length 0-3 with version constraints, custom fields, triggers, ipk extras, rpm group/summary/prefixes) x 5 formats; "
             "the raw control / .PKGINFO text is compared byte for byte with the model's rendering, rpm header tags per tag; distinct = distinct YAML documents; non-trivial = at least two content entries"),
    "trusted_base": PKG_TB + ["text/template and rpmpack's header index are modelled by their output (compared byte for byte / tag by tag)"],
    "assumptions": ["descriptions contain no Unicode white space other than ASCII (strings.TrimSpace is modelled on ASCII)"],
}

PROPS["C14"] = {
    "level": "proof", "harness": "C14", "driver": "C14", "shrink_field": None,
    "rule": ("cases = version strings from the semver grammar (optional v, 1-3 numeric parts incl. 2^64-1, prerelease and metadata identifiers incl. numeric, hyphenated, leading-zero) and one-edit near misses, "
             "x explicit prerelease / metadata x schema in {default, semver, none, other}, through the real nfpm.WithDefaults; the version fields of real deb/ipk/rpm packages for a prerelease build, the release, "
             "a higher epoch and a higher patch level, judged by the Gallina ports of dpkg's and rpm's comparison; random pairs comparing the dpkg port with `dpkg --compare-versions`; "
             "distinct = distinct (schema, version, prerelease, metadata); all count as non-trivial"),
    "trusted_base": COMMON_TB + ["dpkg --compare-versions (external judge validating the Gallina port of verrevcmp); the rpmvercmp port is validated only by the ordering cases (no rpm binary on this image)",
                                  "Masterminds/semver's regular expression is modelled as a recursive-descent parser and validated by differential execution"],
    "assumptions": [],
}

PROPS["C15"] = {
    "level": "proof", "harness": "C15", "driver": "C15", "shrink_field": None,
    "rule": ("cases = generated configurations (all name / version / prerelease / metadata / release / epoch / architecture / override combinations of the package generator) x 5 formats: "
             "ConventionalFileName on a fresh Info vs the metadata decoded from the package built from the same settings, and the package built after asking for the name vs without asking (bytes); "
             "the freshly built nfpm binary over 5 formats x 9 target spellings (file with the format's extension, without extension, another format's extension, dotted and upper-case names, existing directory with and without slash, empty) x packager flag given / omitted (exhaustive matrix); "
             "distinct = distinct YAML documents; non-trivial = at least two content entries"),
    "trusted_base": PKG_TB + ["the nfpm binary is built from the working tree with `go build ./cmd/nfpm` and run in scratch directories; formats of produced files are recognised by magic bytes"],
    "assumptions": [],
}

CFG_TB = COMMON_TB + [
    "harness/gen.go: reflection over nfpm.Config (Gen/TypeTree.v), the schema emitted by the freshly built binary and the published one (Gen/Schema.v), the YAML reference block of www/docs/configuration.md via yaml.v3 nodes (Gen/DocConfig.v)",
    "YAML tokenisation is yaml.v3's (documents reach the model as key trees); merge keys and anchors are outside the modelled envelope",
]
PROPS["C06"] = {
    "level": "proof", "harness": "C06", "driver": "C06", "shrink_field": None, "exhaustive": True,
    "rule": ("cases = (write) per generated configuration x format x signed/unsigned: the fault-free number W of destination writes, then EVERY k < W with the writer failing at write k in three variants (error once, short write + io.ErrShortWrite, error from k on); "
             "(refs) every file reference of a configuration (content sources incl. globs and trees, every script slot, changelog, key files) made unreadable one at a time, packaged with all five formats; "
             "(invalid) each invalid-setting class and a failing signing callback per format; (cli) the freshly built nfpm binary: success, missing source with absent / pre-existing / directory target, target a symlink to /dev/full. "
             "distinct = distinct case descriptors; all count as non-trivial"
             " Each file reference is also removed IN PLACE after builds that read it, and replaced by a directory; invalid classes include an epoch beyond 32 bits and empty key files (a panic counts as no error)."),
    "trusted_base": PKG_TB + ["coq/Model/OutputProgs.v: the packagers' output stages transcribed as writer-stack programs (modelled, not verified); the number of writes zstd issues is a quantified parameter"], "assumptions": [],
}
PROPS["C07"] = {
    "level": "proof", "harness": "C07", "driver": "C07", "shrink_field": None, "exhaustive": False,
    "rule": ("cases = generated configurations within the premise (package mtime and rpm build host fixed, unsigned; six entries in every map that reaches the output; trees, globs, per-entry mtimes, all compressors the generator picks), each built for all five formats: "
             "first pass; more than 1.2 s later again twice in-process, once in ANOTHER process under a rotating timezone (UTC+14 .. UTC-8) and GOMAXPROCS in {1,2,3,7,16}, and once with every file reference made absolute - all compared byte for byte; "
             "every timestamp decoded at every nesting level (ar, outer/control/data tar members, gzip headers, rpm build and file times, archlinux builddate, .MTREE) against {package mtime, declared entry mtimes, on-disk mtimes of the source trees}. "
             "distinct = distinct configurations; all count as non-trivial"
             " Every fourth configuration takes its mtime from SOURCE_DATE_EPOCH (0, 1, a usual value); dated and undated changelog entries; every configuration builds in every format (see coverage_floors)."),
    "trusted_base": PKG_TB + ["translators/nondet.go: syntactic scan for clock / host / process / environment / CPU-count / randomness reads and map iterations (map-typed expressions recognised through declarations, not through type checking)"], "assumptions": [],
}
PROPS["C10"] = {
    "level": "proof", "harness": "C10", "driver": "C10", "shrink_field": None, "exhaustive": False,
    "rule": ("cases = generated payloads/metadata (incl. deb compressions gzip/xz/zstd/none) x signing variants: deb debsign and dpkg-sig with armored/binary, protected/unprotected, subkey-only and key-id-selected keys and every signature type; rpm with the same key kinds; apk with PKCS#1, encrypted PEM and PKCS#8 keys and given/derived key names; "
             "recording callbacks for deb (both methods), rpm and apk; failing callbacks, wrong passphrases and an invalid signature type. Every signature is taken out of the package by the harness's own decoders and verified over the bytes taken from the package as stored - "
             "with go-crypto / crypto/rsa and independently with gpg --verify when gpg is installed; dpkg-sig manifests are compared line by line with the stored members; callbacks' bytes with the verifier's bytes; errors with errors.As / errors.Is. "
             "distinct = distinct (configuration, variant); all count as non-trivial"
             " Also: callbacks that fail once, callback and key file together, key ids the key file does not hold, empty and symlinked key files."),
    "trusted_base": PKG_TB + ["ProtonMail/go-crypto (openpgp, clearsign), crypto/rsa and the gpg binary as verifiers; the private and public test keys under internal/sign/testdata"], "assumptions": [],
}
PROPS["C11"] = {
    "level": "proof", "harness": "C11", "driver": "C11", "shrink_field": "ops", "exhaustive": False,
    "rule": ("cases = histories of {validate, file-name(f), package(f)} on ONE parsed configuration: every ordered pair (a, b, a) of the 11 operations (121; quick: a seeded third), all 120 orders of the five packagings (quick: a seeded eighth), "
             "random histories of length 2..10, over generated configurations with override blocks, custom field maps, entries of every type with and without file_info. Per operation: output (package bytes hash / file name / validation result) against the same "
             "operation on a freshly parsed copy, and a deep reflective snapshot of the whole parsed configuration against the initial one; at the end Config.Get(f) for all formats against fresh. "
             "The model side: the configuration as a heap (one cell per pointer / slice / map), the transcribed writer scripts run on it, privacy of each operation and the aliasing of each Get result compared with addresses observed in the code. "
             "distinct = distinct (configuration, history); all count as non-trivial"),
    "trusted_base": CFG_TB, "assumptions": [],
}
PROPS["C12"] = {
    "level": "proof", "harness": "C12", "driver": "C12", "shrink_field": None, "exhaustive": False,
    "rule": ("cases = one child process per case, built with the Go race detector: (a) the five formats packaged concurrently from ONE parsed configuration, (b) every format twice from independently parsed configurations, (c) one format six times from independent configurations; "
             "GOMAXPROCS in {2,16} (thorough {1,2,4,8,16}), several rounds with randomised start offsets, generated configurations that all contain a tree, per-format umasks, override blocks and entries with and without file_info. "
             "Per goroutine: package bytes hash against the sequential result; per case: the race detector's reports. The model side: each packaging thread, run alone on the configuration's heap, writes only its own cells (premise of the interleaving theorem). "
             "distinct = distinct (configuration, mode, formats, GOMAXPROCS); all count as non-trivial"
             " Also several packagings of a 420-file tree at once; a child that does not finish within 150 s is a failure."),
    "trusted_base": CFG_TB + ["Go race detector (ThreadSanitizer runtime) for the accesses the model does not cover: goroutines inside pgzip/zstd, the packager registry, package-level state"], "assumptions": [],
}
PROPS["C13"] = {
    "level": "proof", "harness": "C13", "driver": "C13", "shrink_field": None, "exhaustive": True,
    "rule": ("cases = for EVERY overridable leaf field found by reflection (62) x every format x {base set, unset} x {override set, unset}, with another format's block setting the same leaf (exhaustive matrix); "
             "generated configurations with override blocks sampled field-wise from other generated configurations (contents, scripts, umask, nested format blocks, an unregistered format); edge documents. "
             "Per case: Config.Get for the five formats and an unregistered one from fresh parses, compared as value trees with the model; every Get repeated twice in random order on ONE parsed configuration; "
             "the base settings afterwards; Validate; and each package rebuilt with the entries addressed to other packagers removed (bytes must not change). distinct = distinct documents; all count as non-trivial"),
    "trusted_base": CFG_TB, "assumptions": [],
}
PROPS["C16"] = {
    "level": "proof", "harness": "C16", "driver": "C16", "shrink_field": None, "exhaustive": True,
    "rule": ("cases = a document with EVERY key of the reflected configuration type set, with an unknown key and a one-edit misspelling injected at every mapping node (exhaustive over positions), generated configurations each with a random injection, "
             "edge documents (duplicate keys, empty override block, unknown override format, complex keys); one document exercising every string-valued path with ${..} references under 8 environments incl. all passphrase combinations, "
             "and 20 os.Expand syntax corners; distinct = distinct documents; all count as non-trivial"
             " Every strict document is also read with ParseFile from .yaml and .json files; documents of 1.2 MiB; every expansion document also with no packager registered; values with glob characters and tildes."),
    "trusted_base": CFG_TB, "assumptions": [],
}
PROPS["C17"] = {
    "level": "proof", "harness": "C17", "driver": "C17", "shrink_field": None, "exhaustive": True,
    "rule": ("cases = the documents of C16's strict-parsing stream (every key path, every injection position, generated configurations) validated against the emitted schema by the Gallina validator (properties / additionalProperties / required / enum / items / $ref); "
             "accepted documents must validate and the key structure of schema and parser must agree; distinct = distinct documents; all count as non-trivial"),
    "trusted_base": CFG_TB, "assumptions": [],
}
