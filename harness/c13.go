package main

// C13 cases: the effective settings Config.Get yields for every format, as value trees, next to the base
// settings and the override blocks they are merged from; plus Get sequences on one parsed configuration.

import (
	"bytes"
	"encoding/json"
	"fmt"
	"math/rand"
	"reflect"
	"sort"
	"strings"
	"time"

	"github.com/goreleaser/nfpm/v2"
	"github.com/goreleaser/nfpm/v2/files"
	"gopkg.in/yaml.v3"
)

func valueTokens(v reflect.Value, out *[]string) {
	switch v.Kind() {
	case reflect.String:
		*out = append(*out, "s", xs(v.String()))
	case reflect.Bool:
		*out = append(*out, "b", fmt.Sprint(b2i(v.Bool())))
	case reflect.Int, reflect.Int64, reflect.Int32:
		*out = append(*out, "n", fmt.Sprint(v.Int()))
	case reflect.Uint32, reflect.Uint, reflect.Uint64:
		*out = append(*out, "n", fmt.Sprint(v.Uint()))
	case reflect.Ptr:
		if v.IsNil() {
			*out = append(*out, "P", "0")
		} else {
			*out = append(*out, "P", "1")
			valueTokens(v.Elem(), out)
		}
	case reflect.Slice:
		*out = append(*out, "L", fmt.Sprint(v.Len()))
		for i := 0; i < v.Len(); i++ {
			valueTokens(v.Index(i), out)
		}
	case reflect.Map:
		keys := v.MapKeys()
		sort.Slice(keys, func(i, j int) bool { return keys[i].String() < keys[j].String() })
		*out = append(*out, "D", fmt.Sprint(len(keys)))
		for _, k := range keys {
			*out = append(*out, xs(k.String()))
			valueTokens(v.MapIndex(k), out)
		}
	case reflect.Struct:
		if v.Type().String() == "time.Time" {
			t := v.Interface().(time.Time)
			if t.IsZero() {
				*out = append(*out, "o", "x")
			} else {
				*out = append(*out, "o", xs(t.UTC().Format(time.RFC3339Nano)))
			}
			return
		}
		var fs []int
		for i := 0; i < v.NumField(); i++ {
			f := v.Type().Field(i)
			if f.IsExported() && f.Type.Kind() != reflect.Func {
				fs = append(fs, i)
			}
		}
		*out = append(*out, "T", fmt.Sprint(len(fs)))
		for _, i := range fs {
			*out = append(*out, xs(v.Type().Field(i).Name))
			valueTokens(v.Field(i), out)
		}
	default:
		*out = append(*out, "s", xs(fmt.Sprint(v.Interface())))
	}
}

func tokensOf(x any) string {
	var t []string
	valueTokens(reflect.ValueOf(x), &t)
	return strings.Join(t, " ")
}

// leaf paths of Overridables: every field reachable through structs whose value mergo replaces as a whole
func leafPaths(t reflect.Type, prefix []int, out *[][]int) {
	for i := 0; i < t.NumField(); i++ {
		f := t.Field(i)
		if !f.IsExported() || f.Type.Kind() == reflect.Func {
			continue
		}
		if y := f.Tag.Get("yaml"); strings.HasPrefix(y, "-") {
			continue
		}
		p := append(append([]int{}, prefix...), i)
		if f.Type.Kind() == reflect.Struct && f.Type.String() != "time.Time" {
			leafPaths(f.Type, p, out)
		} else {
			*out = append(*out, p)
		}
	}
}

func pathName(t reflect.Type, p []int) string {
	var names []string
	for _, i := range p {
		names = append(names, t.Field(i).Name)
		t = t.Field(i).Type
	}
	return strings.Join(names, ".")
}

type c13Stats struct {
	cases, gets, leaves, foreign int
	distinct            map[string]struct{}
	samples             []string
}

// dropForeign removes, from the base contents and from every override block, the entries addressed to a
// packager other than format
func dropForeign(cfg *nfpm.Config, format string) int {
	n := 0
	keep := func(cs files.Contents) files.Contents {
		var out files.Contents
		for _, c := range cs {
			if c.Packager == "" || c.Packager == format {
				out = append(out, c)
			} else {
				n++
			}
		}
		return out
	}
	cfg.Contents = keep(cfg.Contents)
	for _, o := range cfg.Overrides {
		// a block whose list would become empty keeps it: an empty list no longer replaces the base list
		if o != nil {
			m := n
			if k := keep(o.Contents); len(k) > 0 {
				o.Contents = k
			} else {
				n = m
			}
		}
	}
	return n
}

func runC13Case(w *caseWriter, id string, d pkgDesc, st *c13Stats, rng *rand.Rand) {
	writeDesc(id, d)
	writeExtraFiles(d.Files)
	defer removeExtraFiles(d.Files)
	doc := d.YAML
	fresh := func() (*nfpm.Config, error) {
		// the signing passphrases come from the environment, the general and the format-specific ones at once: the
		// effective settings of a format keep ITS passphrase whatever override blocks there are
		c, err := nfpm.ParseWithEnvMapping(strings.NewReader(doc), func(k string) string {
			return map[string]string{"NFPM_PASSPHRASE": "the general passphrase", "NFPM_DEB_PASSPHRASE": "the deb passphrase",
				"NFPM_RPM_PASSPHRASE": "the rpm passphrase", "NFPM_APK_PASSPHRASE": "the apk passphrase"}[k]
		})
		return &c, err
	}
	cfg, err := fresh()
	w.line("ocase %s", id)
	if err != nil {
		w.line("oparse err")
		w.line("oend")
		st.cases++
		return
	}
	var reg []string
	for _, f := range nfpm.Enumerate() {
		reg = append(reg, xs(f))
	}
	sort.Strings(reg)
	w.line("oregistered %s", strings.Join(reg, " "))
	w.line("obase %s", tokensOf(cfg.Info.Overridables))
	// the override blocks as the document writes them (decoded without the parser's defaults or expansion; the
	// generated documents contain no "$")
	var rawCfg nfpm.Config
	must(yaml.Unmarshal([]byte(doc), &rawCfg))
	var fs []string
	for f := range rawCfg.Overrides {
		fs = append(fs, f)
	}
	sort.Strings(fs)
	for _, f := range fs {
		blk := rawCfg.Overrides[f]
		if blk == nil {
			blk = &nfpm.Overridables{}
		}
		// the documented treatment of relation lists (C16): items trimmed, empty ones dropped
		bv := reflect.ValueOf(blk).Elem()
		for i := 0; i < bv.NumField(); i++ {
			if l, ok := bv.Field(i).Interface().([]string); ok {
				var out []string
				for _, it := range l {
					if t := strings.TrimSpace(it); t != "" {
						out = append(out, t)
					}
				}
				bv.Field(i).Set(reflect.ValueOf(out))
			}
		}
		w.line("oblock %s %s", xs(f), tokensOf(*blk))
	}
	verr := cfg.Validate()
	w.line("ovalidate %d %s", b2i(verr == nil), xs(fmt.Sprint(verr)))
	formats := append(append([]string{}, allFormats...), "foo")
	want := map[string]string{}
	for _, f := range formats {
		c, _ := fresh()
		info, err := c.Get(f)
		if err != nil {
			w.line("oget %s err", xs(f))
			continue
		}
		want[f] = tokensOf(info.Overridables)
		w.line("oget %s ok %s", xs(f), want[f])
		st.gets++
	}
	// one parsed configuration asked for every format, in a random order, twice
	shared, _ := fresh()
	order := append(append([]string{}, formats...), formats...)
	rng.Shuffle(len(order), func(i, j int) { order[i], order[j] = order[j], order[i] })
	for _, f := range order {
		info, err := shared.Get(f)
		if err != nil {
			continue
		}
		w.line("oseq %s %d", xs(f), b2i(tokensOf(info.Overridables) == want[f]))
	}
	// the same with a packaging between the Gets: what a packager does to the settings it was given must not reach
	// the settings the configuration yields next
	if d.Formats != nil {
		built, _ := fresh()
		for _, f := range allFormats {
			packageShared(built, f)
			for _, g := range formats {
				info, err := built.Get(g)
				if err != nil {
					continue
				}
				w.line("oseq %s %d", xs(g), b2i(tokensOf(info.Overridables) == want[g]))
			}
		}
	}
	// a package never contains an entry addressed to another packager: removing those entries from the
	// configuration changes no byte of the package
	if d.Formats != nil {
		for _, f := range allFormats {
			a, _ := fresh()
			b, _ := fresh()
			dropped := dropForeign(b, f)
			ra, ea := packageShared(a, f)
			rb, eb := packageShared(b, f)
			same := bytes.Equal(ra, rb) && classifyPkgErr(ea) == classifyPkgErr(eb)
			w.line("oforeign %s %d %d %d", xs(f), dropped, b2i(ea == nil), b2i(same))
			if dropped > 0 && ea == nil {
				st.foreign++
			}
		}
	}
	if c13Extra != nil {
		c13Extra(w)
	}
	before, _ := fresh()
	w.line("obaseafter %d", b2i(tokensOf(shared.Info.Overridables) == tokensOf(before.Info.Overridables)))
	w.line("oend")
	st.cases++
	h := hexsum(sha256b, []byte(doc))
	if _, ok := st.distinct[h]; !ok {
		st.distinct[h] = struct{}{}
		if len(st.samples) < 3 && len(fs) > 0 {
			st.samples = append(st.samples, id+":\n"+doc[:min(len(doc), 900)])
		}
	}
}

// c13Extra: further lines of the case being written (set by the generator of equivalent documents)
var c13Extra func(w *caseWriter)

// Documents written by hand with the keys as the documentation spells them (the generated documents are rendered from
// the configuration type and follow whatever its tags say): a format's override block means the same as writing its
// settings at the top of a document for that format alone. The package metadata of the two must be equal.
const equivBase = `name: equiv
arch: amd64
version: 1.10
release: "2"
version_metadata: git7
maintainer: Base <base@example.com>
mtime: 2023-11-14T22:13:20Z
contents:
  - {src: src/f1, dst: /usr/bin/equiv}
`

var equivSettings = map[string][2]string{
	// format: {what the base document says for it, what the override block says (same keys)}
	"deb":       {"deb:\n  predepends: [base-pd]\n  breaks: [base-breaks]\n  fields: {X-Base: b}\n", "deb:\n  predepends: [over-pd]\n  breaks: [over-breaks]\n  fields: {X-Base: o, X-Over: v}\n"},
	"rpm":       {"rpm:\n  buildhost: base-host.example\n  group: Base/Group\n  summary: base summary\n  packager: Base Packager <bp@example.com>\n", "rpm:\n  buildhost: over-host.example\n  group: Over/Group\n  summary: over summary\n  packager: Over Packager <op@example.com>\n"},
	"ipk":       {"ipk:\n  predepends: [base-ipd]\n  tags: [base-tag]\n  abi_version: \"1\"\n", "ipk:\n  predepends: [over-ipd]\n  tags: [over-tag]\n  abi_version: \"2\"\n"},
	"apk":       {"depends: [base-dep]\nprovides: [base-prov]\n", "depends: [over-dep]\nprovides: [over-prov]\n"},
	"archlinux": {"archlinux:\n  pkgbase: base-pkgbase\n  packager: Base Arch <ba@example.com>\n", "archlinux:\n  pkgbase: over-pkgbase\n  packager: Over Arch <oa@example.com>\n"},
}

func indent(s, by string) string {
	var b strings.Builder
	for _, l := range strings.Split(strings.TrimRight(s, "\n"), "\n") {
		b.WriteString(by + l + "\n")
	}
	return b.String()
}

func metaOf(doc, format string) (string, error) {
	cfg, err := nfpm.ParseWithEnvMapping(strings.NewReader(doc), func(string) string { return "" })
	if err != nil {
		return "", err
	}
	raw, err := packageShared(&cfg, format)
	if err != nil {
		return "", err
	}
	o, err := decodePackage(format, raw)
	if err != nil || o == nil {
		return "", fmt.Errorf("undecodable: %v", err)
	}
	var b strings.Builder
	for _, f := range o.Meta {
		if f.K == "datahash" || f.K == "builddate" || f.K == "size" || f.K == "Installed-Size" {
			continue
		}
		fmt.Fprintf(&b, "%s=%s\n", f.K, f.V)
	}
	return b.String(), nil
}

func genC13Equivalents(w *caseWriter, st *c13Stats, rng *rand.Rand) {
	// A: every format's base settings at the top, every format's other settings in its override block
	a := equivBase
	for _, f := range allFormats {
		a += equivSettings[f][0]
	}
	a += "overrides:\n"
	for _, f := range allFormats {
		a += "  " + f + ":\n" + indent(equivSettings[f][1], "    ")
	}
	c13Extra = func(w *caseWriter) {
		for _, f := range allFormats {
			// B_f: the override block's settings written at the top instead of the base's, no override blocks at all
			b := equivBase
			for _, g := range allFormats {
				if g == f {
					b += equivSettings[g][1]
				} else {
					b += equivSettings[g][0]
				}
			}
			ma, ea := metaOf(a, f)
			mb, eb := metaOf(b, f)
			same := (ea == nil) == (eb == nil) && ma == mb
			w.line("oequiv %s %d %s", xs(f), b2i(same), xs(firstTokenDiff(strings.ReplaceAll(ma, "\n", " "), strings.ReplaceAll(mb, "\n", " "))))
		}
	}
	runC13Case(w, "equivalent-documents", pkgDesc{YAML: a}, st, rng)
	c13Extra = nil
}

// names no packager is registered under, most of them one edit away from one that is
// (the last five are pieces of the packagers' conventional file extensions: a format is named by its registered name only)
var nearMisses = []string{"foo", "DEB", "Deb", "RPM", " rpm", "apk ", "arch", "archlinux2", "Ipk", "tar.gz", "debian", "zst", "tar.zst", "pkg.tar.zst", ".deb", ".zst"}

func cmdC13(tier string, seed int64, out, statsOut, replay string) {
	_, cleanup := pkgWorkdir()
	defer cleanup()
	w := newCaseWriter(out)
	st := &c13Stats{distinct: map[string]struct{}{}}
	rng := rand.New(rand.NewSource(seed))
	if replay != "" {
		readDescs(replay, func(id string, raw json.RawMessage) {
			var d pkgDesc
			must(json.Unmarshal(raw, &d))
			runC13Case(w, id, d, st, rng)
		})
		w.close()
		writeJSON(statsOut, map[string]any{"cases": st.cases})
		return
	}
	ot := reflect.TypeOf(nfpm.Overridables{})
	var leaves [][]int
	leafPaths(ot, nil, &leaves)
	st.leaves = len(leaves)
	setLeaf := func(o *nfpm.Overridables, p []int, tag string) {
		v := reflect.ValueOf(o).Elem()
		for _, i := range p {
			v = v.Field(i)
		}
		v.Set(sampleValue(v.Type(), tag, 0))
	}
	// exhaustive matrix: every overridable leaf x every format x base set/unset x override set/unset,
	// with another format's block setting the same leaf to something else
	n := 0
	for _, p := range leaves {
		for fi, f := range allFormats {
			for mask := 0; mask < 4; mask++ {
				cfg := baseConfig("ovr")
				if mask&1 != 0 {
					setLeaf(&cfg.Overridables, p, "B")
				}
				ov := &nfpm.Overridables{}
				if mask&2 != 0 {
					setLeaf(ov, p, "O")
				}
				other := &nfpm.Overridables{}
				setLeaf(other, p, "X")
				cfg.Overrides = map[string]*nfpm.Overridables{f: ov, allFormats[(fi+1)%len(allFormats)]: other}
				n++
				runC13Case(w, fmt.Sprintf("leaf-%s-%s-%d", pathName(ot, p), f, mask), pkgDesc{YAML: marshalConfig(&cfg)}, st, rng)
			}
		}
	}
	// generated configurations with override blocks sampled from other generated configurations
	g := &pkgGen{rng: rng}
	m := 40
	if tier != "quick" {
		m = 600
	}
	for i := 0; i < m; i++ {
		gen := g.config(i)
		gen.cfg.Overrides = map[string]*nfpm.Overridables{}
		var donorFiles []extraFile
		for _, f := range allFormats {
			if rng.Intn(2) == 0 {
				donor := g.config(1000 + i)
				donorFiles = append(donorFiles, donor.files...)
				ov := &nfpm.Overridables{}
				for _, p := range leaves {
					if rng.Intn(4) == 0 {
						src := reflect.ValueOf(&donor.cfg.Overridables).Elem()
						dst := reflect.ValueOf(ov).Elem()
						for _, k := range p {
							src, dst = src.Field(k), dst.Field(k)
						}
						dst.Set(src)
					}
				}
				gen.cfg.Overrides[f] = ov
			}
		}
		// a tree addressed to one format whose source is a symbolic link to a directory (whatever resolves the link keeps the address)
		gen.cfg.Contents = append(gen.cfg.Contents, &files.Content{Source: "src/lnkdir", Destination: fmt.Sprintf("/opt/c13-%d/linked-tree", i), Type: "tree", Packager: allFormats[i%len(allFormats)]})
		// typed entries (licence, doc, readme, ghost: types only rpm knows) that are ALSO addressed to a packager
		gen.cfg.Contents = append(gen.cfg.Contents,
			&files.Content{Source: "src/f1", Destination: fmt.Sprintf("/usr/share/licenses/c13-%d/LICENSE", i), Type: []string{"license", "licence"}[i%2], Packager: "rpm"},
			&files.Content{Source: "src/f2", Destination: fmt.Sprintf("/usr/share/doc/c13-%d/README", i), Type: []string{"readme", "doc"}[i%2], Packager: allFormats[(i+1)%len(allFormats)]},
			&files.Content{Destination: fmt.Sprintf("/var/log/c13-%d.log", i), Type: "ghost", Packager: allFormats[(i+2)%len(allFormats)]})
		if rng.Intn(4) == 0 {
			gen.cfg.Overrides[nearMisses[rng.Intn(len(nearMisses))]] = &nfpm.Overridables{Depends: []string{"x"}}
		}
		runC13Case(w, fmt.Sprintf("gen-%d", i), pkgDesc{YAML: marshalConfig(&gen.cfg), Files: append(append([]extraFile{}, gen.files...), donorFiles...), Formats: allFormats}, st, rng)
	}
	for _, nm := range nearMisses {
		cfg := baseConfig("ovr")
		cfg.Overrides = map[string]*nfpm.Overridables{nm: {Depends: []string{"x"}}, "deb": {Depends: []string{"y"}}}
		runC13Case(w, "unregistered-"+xs(nm), pkgDesc{YAML: marshalConfig(&cfg)}, st, rng)
	}
	genC13Equivalents(w, st, rng)
	// blocks for formats nobody registered that set nothing at all: an unknown format is unknown whatever its block holds
	for i, blk := range []string{"  pacman:\n", "  pacman: {}\n", "  pacman:\n    scripts: {}\n", "  pacman:\n  deb:\n    depends: [d]\n", "  zst: {}\n  rpm:\n    depends: [r]\n"} {
		runC13Case(w, fmt.Sprintf("unregistered-empty-block-%d", i), pkgDesc{YAML: "name: x\narch: amd64\nversion: 1.0.0\noverrides:\n" + blk}, st, rng)
	}
	// edge documents
	for i, d := range []string{
		"name: x\narch: amd64\nversion: 1.0.0\noverrides:\n  apk:\n  deb:\n    depends: [a]\n",
		"name: x\narch: amd64\nversion: 1.0.0\ndeb:\n  signature:\n    key_id: basekey\noverrides:\n  deb:\n    deb:\n      signature:\n        key_id: overkey\n",
		"name: x\narch: amd64\nversion: 1.0.0\nrpm:\n  signature:\n    key_id: basekey\noverrides:\n  rpm:\n    rpm:\n      signature:\n        key_id: overkey\n  deb:\n    depends: [d]\n",
		"name: x\narch: amd64\nversion: 1.0.0\numask: 0o27\noverrides:\n  deb:\n    depends: [a]\n",
		"name: x\narch: amd64\nversion: 1.0.0\ncontents:\n  - {src: a, dst: /a, packager: deb}\n  - {src: b, dst: /b}\n  - {src: c, dst: /c, packager: rpm}\noverrides:\n  rpm:\n    depends: [r]\n",
		"name: x\narch: amd64\nversion: 1.0.0\nipk:\n  essential: true\n  fields: {A: base, B: base}\noverrides:\n  ipk:\n    ipk:\n      essential: false\n      fields: {B: over, C: over}\n",
		// an override block that spells a custom field with an empty value, and a key id with an empty value
		"name: x\narch: amd64\nversion: 1.0.0\ndeb:\n  fields: {A: base, B: base}\noverrides:\n  deb:\n    deb:\n      fields: {B: \"\", C: over}\n",
		"name: x\narch: amd64\nversion: 1.0.0\ndeb:\n  signature:\n    key_id: DEBBASEKEY\nrpm:\n  signature:\n    key_id: RPMBASEKEY\napk:\n  signature:\n    key_id: APKBASEKEY\noverrides:\n  deb:\n    deb:\n      signature:\n        key_id: \"\"\n  rpm:\n    rpm:\n      signature:\n        key_id: \"\"\n  apk:\n    apk:\n      signature:\n        key_id: \"\"\n",
		// an override block that spells a list out as EMPTY: an empty value replaces nothing, neither that list nor any other
		"name: x\narch: amd64\nversion: 1.0.0\ndepends: [base-dep]\nreplaces: [old]\nconflicts: [c1]\nprovides: [p1]\ncontents:\n  - {src: a, dst: /a}\ndeb:\n  breaks: [b1]\n  triggers:\n    interest: [t1]\noverrides:\n  deb:\n    depends: []\n  rpm:\n    conflicts: []\n    replaces: [newer]\n  apk:\n    provides: []\n    suggests: []\n  ipk:\n    contents: []\n    recommends: [r]\n  archlinux:\n    replaces: []\n    conflicts: []\n    depends: []\n",
		"name: x\narch: amd64\nversion: 1.0.0\ndepends: [base-dep]\ndeb:\n  breaks: [b1]\n  predepends: [pd]\nipk:\n  tags: [t]\n  predepends: [ipd]\noverrides:\n  deb:\n    deb:\n      breaks: []\n    recommends: []\n  ipk:\n    ipk:\n      tags: []\n    depends: []\n",
		// an override block whose contents list names only entries addressed to OTHER formats: the list still replaces the
		// base's (wholesale), and what is left of it for this format is nothing
		"name: x\narch: amd64\nversion: 1.0.0\ncontents:\n  - {src: a, dst: /etc/foo/base.conf}\n  - {src: b, dst: /usr/bin/base}\noverrides:\n  deb:\n    contents:\n      - {src: c, dst: /opt/only-for-rpm, packager: rpm}\n  apk:\n    contents:\n      - {src: c, dst: /opt/for-rpm, packager: rpm}\n      - {src: d, dst: /opt/for-ipk, packager: ipk}\n  rpm:\n    contents:\n      - {src: e, dst: /opt/for-deb, packager: deb}\n      - {src: f, dst: /opt/for-all}\n",
		// custom-field maps that are present but EMPTY in the base, filled by override blocks: each format sees its own block only,
		// in whatever order the formats are asked for
		"name: x\narch: amd64\nversion: 1.0.0\ndeb:\n  fields: {}\nipk:\n  fields: {}\noverrides:\n  deb:\n    deb:\n      fields: {X-Deb: over}\n  rpm:\n    depends: [r]\n    deb:\n      fields: {X-From-Rpm-Block: leak}\n  ipk:\n    ipk:\n      fields: {X-Ipk: over}\n  apk:\n    ipk:\n      fields: {X-From-Apk-Block: leak}\n",
	} {
		runC13Case(w, fmt.Sprintf("edge-%d", i), pkgDesc{YAML: d}, st, rng)
	}
	w.close()
	writeJSON(statsOut, map[string]any{"cases": st.cases, "get_calls": st.gets, "overridable_leaves": st.leaves, "packages_built_with_foreign_entries": st.foreign, "distinct": len(st.distinct),
		"distinct_nontrivial": len(st.distinct), "samples": st.samples})
}
