package main

// C06 cases: every way a packaging can fail to complete - the destination writer failing at write k (every k,
// three variants), each file reference made unreadable in turn, invalid settings by class, a failing signing
// callback - observed on Packager.Package; and the built nfpm binary's exit status, output and target path.

import (
	"syscall"
	"github.com/goreleaser/nfpm/v2/files"
	"encoding/hex"
	"bytes"
	"encoding/json"
	"errors"
	"fmt"
	"io"
	"math/rand"
	"os"
	"os/exec"
	"path/filepath"
	"reflect"
	"strings"

	"github.com/goreleaser/nfpm/v2"
)

var errInjected = errors.New("injected destination failure")

type faultWriter struct {
	n, at   int
	mode    string
	written int
	hit     bool
}

func (f *faultWriter) Write(p []byte) (int, error) {
	i := f.n
	f.n++
	switch {
	case f.mode == "err" && i == f.at:
		f.hit = true
		return 0, errInjected
	case f.mode == "short" && i == f.at:
		f.hit = true
		return len(p) / 2, io.ErrShortWrite
	case f.mode == "persist" && i >= f.at:
		f.hit = true
		return 0, errInjected
	}
	f.written += len(p)
	return len(p), nil
}

func repoDir() string {
	if r := os.Getenv("VERIF_REPO"); r != "" {
		return r
	}
	return "/repo"
}

// panicked: the packaging call did not return at all
type panicked struct{ what string }

func (p *panicked) Error() string { return "PANIC instead of an error: " + p.what }

func packageInto(doc string, format string, w io.Writer, tweak func(*nfpm.Info)) (err error) {
	defer func() {
		if r := recover(); r != nil {
			err = &panicked{fmt.Sprint(r)}
		}
	}()
	cfg, err := parseDoc(doc)
	if err != nil {
		return fmt.Errorf("parse: %w", err)
	}
	info, err := cfg.Get(format)
	if err != nil {
		return fmt.Errorf("parse: %w", err)
	}
	info = nfpm.WithDefaults(info)
	if tweak != nil {
		tweak(info)
	}
	p, err := nfpm.Get(format)
	if err != nil {
		return err
	}
	return p.Package(info, w)
}

type c06Desc struct {
	Kind   string      `json:"kind"` // write | refs | invalid | signfn | cli
	YAML   string      `json:"yaml"`
	Files  []extraFile `json:"files"`
	Format string      `json:"format,omitempty"`
	Signed bool        `json:"signed,omitempty"`
}

type c06Stats struct {
	cases, faults, refs, invalid, cli int
	writes                           map[string]int
	kinds                            map[string]int
	distinct                         map[string]struct{}
	samples                          []string
}

// member sizes of a deb (ar) file, for the model's count of destination writes
func arMemberSizes(raw []byte) []int {
	var out []int
	if len(raw) < 8 {
		return out
	}
	off := 8
	for off+60 <= len(raw) {
		var size int
		fmt.Sscanf(strings.TrimSpace(string(raw[off+48:off+58])), "%d", &size)
		out = append(out, size)
		off += 60 + size + size%2
	}
	return out
}

func runC06Write(w *caseWriter, id string, d c06Desc, st *c06Stats) {
	writeDesc(id, d)
	writeExtraFiles(d.Files)
	defer removeExtraFiles(d.Files)
	w.line("wcase %s %s %d", id, xs(d.Format), b2i(d.Signed))
	var ok bytes.Buffer
	count := &faultWriter{at: -1, mode: "none"}
	err := packageInto(d.YAML, d.Format, io.MultiWriter(count, &ok), nil)
	if err != nil {
		w.line("wbase err %s", xs(err.Error()))
		w.line("wend")
		st.cases++
		return
	}
	sizes := ""
	if d.Format == "deb" {
		for _, s := range arMemberSizes(ok.Bytes()) {
			sizes += fmt.Sprint(" ", s)
		}
	}
	w.line("wbase ok %d %d%s", count.n, ok.Len(), sizes)
	st.writes[d.Format] += count.n
	for k := 0; k < count.n; k++ {
		for _, mode := range []string{"err", "short", "persist"} {
			fw := &faultWriter{at: k, mode: mode}
			err := packageInto(d.YAML, d.Format, fw, nil)
			msg := ""
			if err != nil {
				msg = err.Error()
			}
			w.line("wf %d %s %d %d %d %s", k, mode, b2i(fw.hit), b2i(err == nil), fw.written, xs(msg))
			st.faults++
		}
	}
	w.line("wend")
	st.cases++
}

// ---- file references ----
type fileRef struct {
	kind string
	set  func(c *nfpm.Config, v string)
	get  string
}

func collectRefs(c *nfpm.Config) []fileRef {
	var refs []fileRef
	for i, e := range c.Contents {
		i, e := i, e
		switch e.Type {
		case "symlink", "dir", "ghost":
			continue
		}
		if e.Source == "" {
			continue
		}
		refs = append(refs, fileRef{kind: "content:" + e.Packager + ":" + e.Type, get: e.Source,
			set: func(c *nfpm.Config, v string) { c.Contents[i].Source = v }})
	}
	sv := reflect.ValueOf(&c.Overridables).Elem()
	addScripts := func(kind string, v reflect.Value, path []int) {
		for i := 0; i < v.NumField(); i++ {
			if v.Field(i).Kind() == reflect.String && v.Field(i).String() != "" {
				p := append(append([]int{}, path...), i)
				refs = append(refs, fileRef{kind: kind, get: v.Field(i).String(), set: func(c *nfpm.Config, val string) {
					f := reflect.ValueOf(&c.Overridables).Elem()
					for _, k := range p {
						f = f.Field(k)
					}
					f.SetString(val)
				}})
			}
		}
	}
	fieldPath := func(names ...string) (reflect.Value, []int) {
		v := sv
		var p []int
		for _, n := range names {
			f, _ := v.Type().FieldByName(n)
			p = append(p, f.Index...)
			v = v.FieldByName(n)
		}
		return v, p
	}
	for _, s := range [][]string{{"script:top", "Scripts"}, {"script:rpm", "RPM", "Scripts"}, {"script:deb", "Deb", "Scripts"},
		{"script:apk", "APK", "Scripts"}, {"script:archlinux", "ArchLinux", "Scripts"}} {
		v, p := fieldPath(s[1:]...)
		addScripts(s[0], v, p)
	}
	if c.Changelog != "" {
		refs = append(refs, fileRef{kind: "changelog", get: c.Changelog, set: func(c *nfpm.Config, v string) { c.Changelog = v }})
	}
	if c.Deb.Signature.KeyFile != "" {
		refs = append(refs, fileRef{kind: "key:deb", get: c.Deb.Signature.KeyFile, set: func(c *nfpm.Config, v string) { c.Deb.Signature.KeyFile = v }})
	}
	if c.RPM.Signature.KeyFile != "" {
		refs = append(refs, fileRef{kind: "key:rpm", get: c.RPM.Signature.KeyFile, set: func(c *nfpm.Config, v string) { c.RPM.Signature.KeyFile = v }})
	}
	if c.APK.Signature.KeyFile != "" {
		refs = append(refs, fileRef{kind: "key:apk", get: c.APK.Signature.KeyFile, set: func(c *nfpm.Config, v string) { c.APK.Signature.KeyFile = v }})
	}
	return refs
}

func goneName(p string) string {
	if i := strings.IndexAny(p, "*?["); i >= 0 {
		// a glob: make its directory part miss
		dir := filepath.Dir(p[:i] + "x")
		return dir + "-gone" + p[len(dir):]
	}
	return p + ".gone"
}

func runC06Refs(w *caseWriter, id string, d c06Desc, st *c06Stats) {
	writeDesc(id, d)
	writeExtraFiles(d.Files)
	defer removeExtraFiles(d.Files)
	w.line("rcase %s", id)
	base := map[string]bool{}
	for _, f := range allFormats {
		err := packageInto(d.YAML, f, io.Discard, nil)
		base[f] = err == nil
		w.line("rbase %s %d", xs(f), b2i(err == nil))
	}
	cfg, err := parseDoc(d.YAML)
	if err != nil {
		w.line("rend")
		st.cases++
		return
	}
	for ri, r := range collectRefs(cfg) {
		c2, _ := parseDoc(d.YAML)
		collectRefs(c2)[ri].set(c2, goneName(r.get))
		doc2 := marshalConfig(c2)
		for _, f := range allFormats {
			if !base[f] {
				continue
			}
			err := packageInto(doc2, f, io.Discard, nil)
			msg := ""
			if err != nil {
				msg = err.Error()
			}
			w.line("rref %s %s %s %d %s", xs(r.kind), xs(r.get), xs(f), b2i(err == nil), xs(msg))
			st.refs++
			st.kinds[strings.SplitN(r.kind, ":", 2)[0]]++
			if strings.HasSuffix(r.kind, ":tree") {
				st.kinds["tree"]++
			}
		}
	}
	// the same reference, the same path, but the file is gone (or is a directory) by the time of THIS build, after
	// builds in this process that read it successfully: nothing remembered from those may stand in for it
	for ri, r := range collectRefs(cfg) {
		if strings.ContainsAny(r.get, "*?[") || r.get == "" {
			continue
		}
		doc2 := d.YAML
		path := r.get
		if filepath.IsAbs(path) {
			// a key from the repository's test data: work on a copy inside the work directory
			b, err := os.ReadFile(path)
			if err != nil {
				continue
			}
			path = filepath.Join("keys", fmt.Sprintf("%d-%s", ri, filepath.Base(path)))
			must(os.MkdirAll("keys", 0o755))
			must(os.WriteFile(path, b, 0o600))
			c2, _ := parseDoc(d.YAML)
			collectRefs(c2)[ri].set(c2, path)
			doc2 = marshalConfig(c2)
		}
		if _, err := os.Lstat(path); err != nil {
			continue
		}
		ok := map[string]bool{}
		for _, f := range allFormats {
			ok[f] = base[f] && packageInto(doc2, f, io.Discard, nil) == nil
		}
		moved := path + ".moved-away"
		if err := os.Rename(path, moved); err != nil {
			continue
		}
		isContent := strings.HasPrefix(r.kind, "content")
		for _, variant := range []string{"gone", "directory", "dangling-symlink"} {
			if variant == "directory" {
				if isContent {
					continue // a directory is a valid content source
				}
				must(os.Mkdir(path, 0o755))
			}
			if variant == "dangling-symlink" {
				if isContent {
					continue // a dangling link is packaged as the link it is
				}
				must(os.Symlink("nowhere/this-target-does-not-exist", path))
			}
			for _, f := range allFormats {
				if !ok[f] {
					continue
				}
				err := packageInto(doc2, f, io.Discard, nil)
				msg := ""
				if err != nil {
					msg = err.Error()
				}
				w.line("rref %s %s %s %d %s", xs(r.kind), xs(r.get+" ("+variant+" at build time)"), xs(f), b2i(err == nil), xs(msg))
				st.refs++
				st.kinds[strings.SplitN(r.kind, ":", 2)[0]+"-"+variant]++
			}
			if variant == "directory" || variant == "dangling-symlink" {
				os.Remove(path)
			}
		}
		must(os.Rename(moved, path))
	}
	w.line("rend")
	st.cases++
}

// ---- invalid settings ----
type invalidClass struct {
	name  string
	apply func(c *nfpm.Config)
}

func invalidClasses() []invalidClass {
	key := filepath.Join(repoDir(), "internal/sign/testdata/privkey_unprotected.asc")
	return []invalidClass{
		{"name-empty", func(c *nfpm.Config) { c.Name = "" }},
		{"deb-compression", func(c *nfpm.Config) { c.Deb.Compression = "lzma2" }},
		{"rpm-compression", func(c *nfpm.Config) { c.RPM.Compression = "brotli" }},
		{"deb-signature-type", func(c *nfpm.Config) { c.Deb.Signature.KeyFile = key; c.Deb.Signature.Type = "bogus" }},
		{"archlinux-pkgname", func(c *nfpm.Config) { c.Name = "Foo Bar!" }},
		{"archlinux-platform", func(c *nfpm.Config) { c.Platform = "darwin" }},
		{"archlinux-pkgname-non-ascii", func(c *nfpm.Config) { c.Name = "caf\u00e9-tools" }},
		{"archlinux-pkgname-fullwidth", func(c *nfpm.Config) { c.Name = "\uff46\uff4f\uff4f\u0661\u0662" }},
		{"apk-key-format", func(c *nfpm.Config) {
			c.APK.Signature.KeyFile = filepath.Join(repoDir(), "internal/sign/testdata/wrong_key_format.priv")
		}},
		{"pgp-key-format", func(c *nfpm.Config) {
			bad := filepath.Join(repoDir(), "internal/sign/testdata/rsa_unprotected.priv")
			c.Deb.Signature.KeyFile, c.RPM.Signature.KeyFile = bad, bad
		}},
		{"changelog-malformed", func(c *nfpm.Config) { c.Changelog = "scripts/not-a-changelog" }},
		// an epoch rpm's 32-bit field cannot hold
		{"rpm-epoch-out-of-range", func(c *nfpm.Config) { c.Epoch = "4294967298" }},
		// a key file that exists, is readable and holds nothing
		{"pgp-key-empty", func(c *nfpm.Config) {
			c.Deb.Signature.KeyFile, c.RPM.Signature.KeyFile = "scripts/empty-key", "scripts/empty-key"
		}},
		{"apk-key-empty", func(c *nfpm.Config) { c.APK.Signature.KeyFile = "scripts/empty-key" }},
		// a key id (well-formed) that names no key of the configured key file: the package cannot be signed as asked
		{"pgp-key-id-not-in-key-file", func(c *nfpm.Config) {
			id := "0123456789abcdef"
			c.Deb.Signature.KeyFile, c.RPM.Signature.KeyFile = key, key
			c.Deb.Signature.KeyID, c.RPM.Signature.KeyID = &id, &id
		}},
		// a signed apk needs a key name; without one it is derived from the maintainer's address - and there is none
		{"apk-signature-without-key-name-and-maintainer", func(c *nfpm.Config) {
			c.APK.Signature.KeyFile = filepath.Join(repoDir(), "internal/sign/testdata/rsa_unprotected.priv")
			c.APK.Signature.KeyName, c.Maintainer = "", "  "
		}},
		// a declared configuration file whose source is not there, in every flavour
		{"config-source-missing", func(c *nfpm.Config) {
			c.Contents = append(c.Contents, &files.Content{Source: "src/not-there.conf", Destination: "/etc/c06/app.conf", Type: files.TypeConfig})
		}},
		{"config-noreplace-source-missing", func(c *nfpm.Config) {
			c.Contents = append(c.Contents, &files.Content{Source: "src/not-there.conf", Destination: "/etc/c06/app.conf", Type: files.TypeConfigNoReplace})
		}},
		{"config-missingok-source-missing", func(c *nfpm.Config) {
			c.Contents = append(c.Contents, &files.Content{Source: "src/not-there.conf", Destination: "/etc/c06/app.conf", Type: files.TypeConfigMissingOK})
		}},
		// a tree that holds something that is neither file, directory nor link (a unix socket left by a running service): it
		// cannot be packaged, and leaving it out silently is not packaging the tree
		{"tree-holds-a-socket", func(c *nfpm.Config) {
			must(os.MkdirAll("sockdir/run", 0o755))
			must(os.WriteFile("sockdir/run/app.pid", []byte("1\n"), 0o644))
			os.Remove("sockdir/run/app.sock")
			must(syscall.Mknod("sockdir/run/app.sock", syscall.S_IFSOCK|0o644, 0))
			c.Contents = append(c.Contents, &files.Content{Source: "sockdir", Destination: "/opt/c06/sockdir", Type: files.TypeTree})
		}},
		{"config-missingok-pattern-without-match", func(c *nfpm.Config) {
			c.Contents = append(c.Contents, &files.Content{Source: "src/conf.none/*.conf", Destination: "/etc/c06/", Type: files.TypeConfigMissingOK})
		}},
	}
}

func runC06Invalid(w *caseWriter, id string, d c06Desc, st *c06Stats) {
	d.Files = append(d.Files, extraFile{Path: "scripts/not-a-changelog", Hex: fmt.Sprintf("%x", "- semver: [unclosed\n  date: never\n"), Mode: 0o644, MTime: 1650000000},
		extraFile{Path: "scripts/empty-key", Hex: "", Mode: 0o600, MTime: 1650000000})
	writeDesc(id, d)
	writeExtraFiles(d.Files)
	defer removeExtraFiles(d.Files)
	w.line("icase %s", id)
	base := map[string]bool{}
	for _, f := range allFormats {
		base[f] = packageInto(d.YAML, f, io.Discard, nil) == nil
		w.line("ibase %s %d", xs(f), b2i(base[f]))
	}
	for _, cl := range invalidClasses() {
		c2, err := parseDoc(d.YAML)
		if err != nil {
			continue
		}
		cl.apply(c2)
		doc2 := marshalConfig(c2)
		for _, f := range allFormats {
			if !base[f] {
				continue
			}
			err := packageInto(doc2, f, io.Discard, nil)
			msg := ""
			if err != nil {
				msg = err.Error()
			}
			// a panic is not "a non-nil error returned": it counts like a nil
			var pn *panicked
			w.line("iset %s %s %d %s", xs(cl.name), xs(f), b2i(err == nil || errors.As(err, &pn)), xs(msg))
			st.invalid++
		}
	}
	// a format nobody registered
	_, gerr := nfpm.Get("nosuchformat")
	w.line("iset %s %s %d %s", xs("unknown-packager"), xs("nosuchformat"), b2i(gerr == nil), xs(fmt.Sprint(gerr)))
	// hand-written documents, keys as documented, whose override block names a script that is not there
	for _, f := range allFormats {
		for _, k := range []string{"preinstall", "postinstall", "preremove", "postremove"} {
			doc := "name: ovscript\narch: amd64\nversion: 1.0.0\nmaintainer: M <m@example.com>\noverrides:\n  " + f + ":\n    scripts:\n      " + k + ": scripts/no-such-script.sh\n"
			err := packageInto(doc, f, io.Discard, nil)
			w.line("iset %s %s %d %s", xs("override-block-script-missing"), xs(f), b2i(err == nil), xs(fmt.Sprint(err)))
			st.invalid++
		}
	}
	// a failing signing callback
	boom := errors.New("callback says no")
	for _, f := range []string{"deb", "rpm", "apk"} {
		if !base[f] {
			continue
		}
		err := packageInto(d.YAML, f, io.Discard, func(info *nfpm.Info) {
			fn := func(io.Reader) ([]byte, error) { return nil, boom }
			switch f {
			case "deb":
				info.Deb.Signature.SignFn = fn
			case "rpm":
				info.RPM.Signature.SignFn = fn
			case "apk":
				info.APK.Signature.SignFn = fn
				info.APK.Signature.KeyName = "k.rsa.pub"
			}
		})
		w.line("iset %s %s %d %s", xs("signing-callback-fails"), xs(f), b2i(err == nil), xs(fmt.Sprint(err)))
		st.invalid++
	}
	// a signed apk through a callback, without key name and without a maintainer address
	if base["apk"] {
		err := packageInto(d.YAML, "apk", io.Discard, func(info *nfpm.Info) {
			info.APK.Signature.SignFn = func(io.Reader) ([]byte, error) { return []byte("signature"), nil }
			info.APK.Signature.KeyName, info.Maintainer = "", ""
		})
		var pn *panicked
		w.line("iset %s %s %d %s", xs("apk-signature-callback-without-key-name-and-maintainer"), xs("apk"), b2i(err == nil || errors.As(err, &pn)), xs(fmt.Sprint(err)))
		st.invalid++
	}
	// an invalid signature type with a callback as the only signer
	if base["deb"] {
		err := packageInto(d.YAML, "deb", io.Discard, func(info *nfpm.Info) {
			info.Deb.Signature.Type = "bogus"
			info.Deb.Signature.SignFn = func(io.Reader) ([]byte, error) { return []byte("signature"), nil }
		})
		w.line("iset %s %s %d %s", xs("deb-signature-type-callback"), xs("deb"), b2i(err == nil), xs(fmt.Sprint(err)))
		st.invalid++
	}
	w.line("iend")
	st.cases++
}

// ---- the command line ----
func runC06Cli(w *caseWriter, id string, d c06Desc, bin string, st *c06Stats) {
	writeDesc(id, d)
	writeExtraFiles(d.Files)
	defer removeExtraFiles(d.Files)
	w.line("ccase %s", id)
	cwd, _ := os.Getwd()
	work, err := os.MkdirTemp("", "verif-c06cli-")
	must(err)
	defer os.RemoveAll(work)
	good := filepath.Join(work, "good.yaml")
	must(os.WriteFile(good, []byte(d.YAML), 0o644))
	cfg, _ := parseDoc(d.YAML)
	var badDoc, missing string
	for ri, r := range collectRefs(cfg) {
		if strings.HasPrefix(r.kind, "content::") || r.kind == "script:top" {
			c2, _ := parseDoc(d.YAML)
			missing = goneName(r.get)
			collectRefs(c2)[ri].set(c2, missing)
			badDoc = marshalConfig(c2)
			break
		}
	}
	bad := filepath.Join(work, "bad.yaml")
	must(os.WriteFile(bad, []byte(badDoc), 0o644))
	run := func(name, format, config, target string, prepare func()) {
		if prepare != nil {
			prepare()
		}
		cmd := exec.Command(bin, "package", "-f", config, "-p", format, "-t", target)
		cmd.Dir = cwd
		out, err := cmd.CombinedOutput()
		code := 0
		if err != nil {
			code = 1
			var ee *exec.ExitError
			if errors.As(err, &ee) {
				code = ee.ExitCode()
			}
		}
		final := target
		if fi, serr := os.Stat(target); serr == nil && fi.IsDir() {
			final = ""
			ents, _ := os.ReadDir(target)
			for _, e := range ents {
				final = filepath.Join(target, e.Name())
			}
		}
		exists := false
		if final != "" {
			_, lerr := os.Lstat(final)
			exists = lerr == nil
		}
		mentions := missing != "" && strings.Contains(string(out), missing)
		w.line("cli %s %s %d %d %d %s", xs(name), xs(format), code, b2i(exists), b2i(mentions), xs(lastLine(string(out))))
		st.cli++
		os.RemoveAll(filepath.Join(work, "out"))
	}
	outDir := filepath.Join(work, "out")
	for _, f := range allFormats {
		tgt := filepath.Join(outDir, "pkg."+f)
		mk := func() { must(os.MkdirAll(outDir, 0o755)) }
		run("ok", f, good, tgt, mk)
		if badDoc != "" {
			run("missing-source", f, bad, tgt, mk)
			run("missing-source-existing-target", f, bad, tgt, func() {
				mk()
				must(os.WriteFile(tgt, bytes.Repeat([]byte("previous package\n"), 100), 0o644))
			})
			run("missing-source-directory-target", f, bad, outDir, mk)
		}
		run("device-full", f, good, tgt, func() { mk(); must(os.Symlink("/dev/full", tgt)) })
	}
	w.line("cend")
	st.cases++
}

func lastLine(s string) string {
	ls := strings.Split(strings.TrimSpace(s), "\n")
	l := ls[len(ls)-1]
	if len(l) > 300 {
		l = l[:300]
	}
	return l
}

func signedVariant(c *nfpm.Config) {
	pgp := filepath.Join(repoDir(), "internal/sign/testdata/privkey_unprotected.asc")
	c.Deb.Signature.KeyFile = pgp
	c.RPM.Signature.KeyFile = pgp
	c.APK.Signature.KeyFile = filepath.Join(repoDir(), "internal/sign/testdata/rsa_unprotected.priv")
	c.APK.Signature.KeyName = "verif.rsa.pub"
}

func cmdC06(tier string, seed int64, out, statsOut, replay string) {
	_, cleanup := pkgWorkdir()
	defer cleanup()
	w := newCaseWriter(out)
	st := &c06Stats{writes: map[string]int{}, kinds: map[string]int{}, distinct: map[string]struct{}{}}
	work, err := os.MkdirTemp("", "verif-c06-")
	must(err)
	defer os.RemoveAll(work)
	var bin string
	dispatch := func(id string, d c06Desc) {
		switch d.Kind {
		case "write":
			runC06Write(w, id, d, st)
		case "refs":
			runC06Refs(w, id, d, st)
		case "invalid":
			runC06Invalid(w, id, d, st)
		case "cli":
			if bin == "" {
				b, err := buildNfpmBinary(work)
				must(err)
				bin = b
			}
			runC06Cli(w, id, d, bin, st)
		}
		raw, _ := json.Marshal(d)
		st.distinct[hexsum(sha256b, raw)] = struct{}{}
		if len(st.samples) < 4 && (len(st.samples) == 0 || !strings.HasPrefix(st.samples[len(st.samples)-1], d.Kind)) {
			st.samples = append(st.samples, fmt.Sprintf("%s case %s (format %q, signed %v)", d.Kind, id, d.Format, d.Signed))
		}
	}
	if replay != "" {
		readDescs(replay, func(id string, raw json.RawMessage) {
			var d c06Desc
			must(json.Unmarshal(raw, &d))
			dispatch(id, d)
		})
		w.close()
		writeJSON(statsOut, map[string]any{"cases": st.cases})
		return
	}
	rng := rand.New(rand.NewSource(seed))
	g := &pkgGen{rng: rng}
	nW, nR, nI, nC := 6, 5, 3, 1
	if tier != "quick" {
		nW, nR, nI, nC = 40, 40, 20, 4
	}
	for i := 0; i < nW; i++ {
		gen := g.config(i)
		signed := i%2 == 1
		if signed {
			signedVariant(&gen.cfg)
		}
		doc := marshalConfig(&gen.cfg)
		for _, f := range allFormats {
			dispatch(fmt.Sprintf("write-%d-%s", i, f), c06Desc{Kind: "write", YAML: doc, Files: gen.files, Format: f, Signed: signed})
		}
	}
	for i := 0; i < nR; i++ {
		gen := g.config(100 + i)
		if i%2 == 0 {
			signedVariant(&gen.cfg)
		}
		// every kind of file reference is present in some configuration of every run, whatever the seed: a tree,
		// a glob, a plain file and a script in every first one,
		if i%2 == 0 {
			gen.cfg.Platform = ""
			gen.cfg.Contents = append(gen.cfg.Contents,
				&files.Content{Source: "src/k", Destination: fmt.Sprintf("/opt/refs%d/tree", i), Type: "tree"},
				&files.Content{Source: "src/d/*", Destination: fmt.Sprintf("/opt/refs%d/glob/", i)},
				&files.Content{Source: "src/f1", Destination: fmt.Sprintf("/opt/refs%d/f1", i)},
				// the entry types only rpm has (their sources are read by the packager itself, not expanded by a pattern)
				&files.Content{Source: "src/d/x", Destination: fmt.Sprintf("/usr/share/doc/refs%d/manual", i), Type: files.TypeRPMDoc},
				&files.Content{Source: "src/h/x", Destination: fmt.Sprintf("/usr/share/doc/refs%d/LICENSE", i), Type: files.TypeRPMLicence},
				&files.Content{Source: "src/k/conf/app.cfg", Destination: fmt.Sprintf("/usr/share/doc/refs%d/README", i), Type: files.TypeRPMReadme})
		}
		// a changelog in every second one (the generator sets one in a fifth of its configurations only)
		if i%2 == 1 && gen.cfg.Changelog == "" {
			gen.cfg.Changelog = "changelog.yaml"
			gen.files = append(gen.files, extraFile{Path: "changelog.yaml", Hex: hex.EncodeToString([]byte(changelogYAML)), Mode: 0o644, MTime: 1650000100})
		}
		dispatch(fmt.Sprintf("refs-%d", i), c06Desc{Kind: "refs", YAML: marshalConfig(&gen.cfg), Files: gen.files})
	}
	for i := 0; i < nI; i++ {
		gen := g.config(200 + i)
		dispatch(fmt.Sprintf("invalid-%d", i), c06Desc{Kind: "invalid", YAML: marshalConfig(&gen.cfg), Files: gen.files})
	}
	for i := 0; i < nC; i++ {
		gen := g.config(300 + i)
		dispatch(fmt.Sprintf("cli-%d", i), c06Desc{Kind: "cli", YAML: marshalConfig(&gen.cfg), Files: gen.files})
	}
	w.close()
	floors := map[string][]int{}
	for _, k := range []string{"changelog", "changelog-gone", "content", "content-gone", "key", "key-gone", "key-directory", "script", "script-gone", "script-directory", "tree"} {
		floors["reference faults of kind "+k] = []int{st.kinds[k], 1}
	}
	writeJSON(statsOut, map[string]any{"floors": floors, "cases": st.cases, "write_faults_injected": st.faults, "fault_free_writes_by_format": st.writes, "reference_faults": st.refs,
		"reference_kinds": st.kinds, "invalid_setting_runs": st.invalid, "cli_runs": st.cli, "distinct": len(st.distinct), "distinct_nontrivial": len(st.distinct), "samples": st.samples})
}
