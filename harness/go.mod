module verif/harness

go 1.23.0

require (
	github.com/ProtonMail/go-crypto v1.2.0
	github.com/goreleaser/fileglob v1.3.0
	github.com/goreleaser/nfpm/v2 v2.0.0
	github.com/klauspost/compress v1.18.0
	github.com/ulikunitz/xz v0.5.12
	gopkg.in/yaml.v3 v3.0.1
)

require (
	dario.cat/mergo v1.0.1 // indirect
	github.com/AlekSi/pointer v1.2.0 // indirect
	github.com/Masterminds/goutils v1.1.1 // indirect
	github.com/Masterminds/semver/v3 v3.3.1 // indirect
	github.com/Masterminds/sprig/v3 v3.3.0 // indirect
	github.com/blakesmith/ar v0.0.0-20190502131153-809d4375e1fb // indirect
	github.com/cavaliergopher/cpio v1.0.1 // indirect
	github.com/cloudflare/circl v1.6.0 // indirect
	github.com/cyphar/filepath-securejoin v0.4.1 // indirect
	github.com/emirpasic/gods v1.18.1 // indirect
	github.com/go-git/gcfg v1.5.1-0.20230307220236-3a3c6141e376 // indirect
	github.com/go-git/go-billy/v5 v5.6.2 // indirect
	github.com/go-git/go-git/v5 v5.14.0 // indirect
	github.com/gobwas/glob v0.2.3 // indirect
	github.com/golang/groupcache v0.0.0-20241129210726-2c02b8208cf8 // indirect
	github.com/google/rpmpack v0.6.1-0.20240329070804-c2247cbb881a // indirect
	github.com/google/uuid v1.6.0 // indirect
	github.com/goreleaser/chglog v0.7.0 // indirect
	github.com/huandu/xstrings v1.5.0 // indirect
	github.com/jbenet/go-context v0.0.0-20150711004518-d14ea06fba99 // indirect
	github.com/kevinburke/ssh_config v1.2.0 // indirect
	github.com/klauspost/pgzip v1.2.6 // indirect
	github.com/mitchellh/copystructure v1.2.0 // indirect
	github.com/mitchellh/reflectwalk v1.0.2 // indirect
	github.com/pjbgf/sha1cd v0.3.2 // indirect
	github.com/sergi/go-diff v1.3.2-0.20230802210424-5b0b94c5c0d3 // indirect
	github.com/shopspring/decimal v1.4.0 // indirect
	github.com/skeema/knownhosts v1.3.1 // indirect
	github.com/spf13/cast v1.7.1 // indirect
	github.com/xanzy/ssh-agent v0.3.3 // indirect
	gitlab.com/digitalxero/go-conventional-commit v1.0.7 // indirect
	golang.org/x/crypto v0.36.0 // indirect
	golang.org/x/exp v0.0.0-20240719175910-8a7402abbf56 // indirect
	golang.org/x/net v0.38.0 // indirect
	golang.org/x/sys v0.31.0 // indirect
	gopkg.in/warnings.v0 v0.1.2 // indirect
)

replace github.com/goreleaser/nfpm/v2 => /repo
