module verif/harness

go 1.23.0

require (
	github.com/goreleaser/fileglob v1.3.0
	github.com/goreleaser/nfpm/v2 v2.0.0
	github.com/klauspost/compress v1.18.0
	github.com/ulikunitz/xz v0.5.12
)

require github.com/gobwas/glob v0.2.3 // indirect

replace github.com/goreleaser/nfpm/v2 => /repo
