package main

// C12 cases: packagings run concurrently - different formats from ONE parsed configuration, or any formats from
// independently parsed configurations - in a child process built with the race detector; every result against the
// sequential result, and the race detector's reports per case.

import (
	"bytes"
	"context"
	"encoding/json"
	"fmt"
	"io"
	"math/rand"
	"os"
	"os/exec"
	"path/filepath"
	"runtime"
	"strings"
	"sync"
	"time"

	"github.com/goreleaser/nfpm/v2"
	"github.com/goreleaser/nfpm/v2/files"
)

type concDesc struct {
	YAML    string      `json:"yaml"`
	YAML2   string      `json:"yaml2,omitempty"` // gated-independent: the configuration of the second packaging
	Files   []extraFile `json:"files"`
	Mode    string      `json:"mode"`    // shared: one parsed configuration; independent: one per goroutine
	Formats []string    `json:"formats"` // one goroutine per element
	Procs   int         `json:"procs"`
	Rounds  int         `json:"rounds"`
	Seed    int64       `json:"seed"`
	// sequential results, computed by the parent in processes of their own (format -> output)
	Refs map[string]string `json:"refs,omitempty"`
}

// child: harness-race C12ONE <desc.json> <out>
func cmdC12One(descPath, out string) {
	raw, err := os.ReadFile(descPath)
	must(err)
	var d concDesc
	must(json.Unmarshal(raw, &d))
	w := newCaseWriter(out)
	defer w.close()
	cfg0, err := parseDoc(d.YAML)
	if err != nil {
		w.line("cparse err")
		return
	}
	w.line("hconfig %s", tokensOf(*cfg0))
	w.line("cmode %s %d %d %d", xs(d.Mode), d.Procs, len(d.Formats), d.Rounds)
	// no packaging happens in this process before the goroutines start: lazily initialised package state is first
	// touched concurrently, as in a program that builds its packages in parallel right away
	seen := map[string]bool{}
	for i, f := range d.Formats {
		if d.Mode == "signed" {
			if !seen[f] {
				seen[f] = true
				w.line("cref %s %s", xs(f), xs("pkg:signed"))
			}
			continue
		}
		key := f
		if d.Mode == "gated-independent" && i == 1 {
			key = "2:" + f
		}
		if !seen[key] {
			seen[key] = true
			w.line("cref %s %s", xs(key), xs(d.Refs[key]))
		}
	}
	old := runtime.GOMAXPROCS(d.Procs)
	defer runtime.GOMAXPROCS(old)
	if strings.HasPrefix(d.Mode, "gated") {
		runGated(w, d)
		return
	}
	rng := rand.New(rand.NewSource(d.Seed))
	for r := 0; r < d.Rounds; r++ {
		shared, _ := parseDoc(d.YAML)
		res := make([]string, len(d.Formats))
		start := make(chan struct{})
		var wg sync.WaitGroup
		for i, f := range d.Formats {
			cfg := shared
			if d.Mode == "independent" {
				cfg, _ = parseDoc(d.YAML)
			}
			delay := time.Duration(rng.Intn(300)) * time.Microsecond
			if d.Mode == "signed" {
				delay = 0 // lazily initialised signing state is touched by everybody at once
			}
			wg.Add(1)
			go func(i int, f string, cfg *nfpm.Config, delay time.Duration) {
				defer wg.Done()
				<-start
				time.Sleep(delay)
				if d.Mode == "signed" {
					res[i] = packageSignedOp(cfg, f)
				} else {
					res[i] = runOp(cfg, "pkg:"+f)
				}
			}(i, f, cfg, delay)
		}
		// meanwhile other goroutines look packagers up - under their names, under names nobody registered - and validate
		for _, name := range []string{"deb", "zst", "pkg.tar.zst", ".deb", "rpm", "nosuch", "apk", "tar.gz", "ipk", "archlinux"} {
			vcfg, _ := parseDoc(d.YAML)
			wg.Add(1)
			go func(name string, vcfg *nfpm.Config) {
				defer wg.Done()
				<-start
				for k := 0; k < 20; k++ {
					nfpm.Get(name)
					if vcfg != nil && k%5 == 0 {
						vcfg.Validate()
					}
				}
			}(name, vcfg)
		}
		close(start)
		wg.Wait()
		for i, f := range d.Formats {
			w.line("cres %d %d %s %s", r, i, xs(f), xs(res[i]))
		}
	}
}

// gateWriter stops its packaging just before the k-th write of the output until it is released
type gateWriter struct {
	buf     bytes.Buffer
	n, at   int
	paused  chan struct{}
	resume  chan struct{}
	stopped bool
}

func (g *gateWriter) Write(p []byte) (int, error) {
	if g.n == g.at && !g.stopped {
		g.stopped = true
		close(g.paused)
		<-g.resume
	}
	g.n++
	return g.buf.Write(p)
}

func packageTo(cfg *nfpm.Config, format string, w io.Writer, result func() []byte) string {
	info, err := cfg.Get(format)
	if err != nil {
		return "pkg-err:parse"
	}
	info = nfpm.WithDefaults(info)
	p, err := nfpm.Get(format)
	if err != nil {
		return "pkg-err:" + err.Error()
	}
	if err := p.Package(info, w); err != nil {
		return "pkg-err:" + classifyPkgErr(err)
	}
	return "pkg:" + hexsum(sha256b, result())
}

// runGated: packaging A is held just before its k-th output write while packaging B runs from start to end, for
// every k A has - the interleavings in which pooled or cached package-level state handed back by A is picked up by B
func runGated(w *caseWriter, d concDesc) {
	a, b := d.Formats[0], d.Formats[1]
	for k := 0; k < 200; k++ {
		cfgA, _ := parseDoc(d.YAML)
		cfgB := cfgA
		if d.Mode == "gated-independent" {
			cfgB, _ = parseDoc(d.YAML2)
		}
		gw := &gateWriter{at: k, paused: make(chan struct{}), resume: make(chan struct{})}
		doneA := make(chan string, 1)
		go func() { doneA <- packageTo(cfgA, a, gw, gw.buf.Bytes) }()
		select {
		case <-gw.paused:
			resB := runOp(cfgB, "pkg:"+b)
			close(gw.resume)
			resA := <-doneA
			w.line("cres %d 0 %s %s", k, xs(a), xs(resA))
			keyB := b
			if d.Mode == "gated-independent" {
				keyB = "2:" + b
			}
			w.line("cres %d 1 %s %s", k, xs(keyB), xs(resB))
		case resA := <-doneA:
			// A has fewer than k+1 writes: every gate position has been visited
			w.line("cres %d 0 %s %s", k, xs(a), xs(resA))
			return
		}
	}
}

type c12Stats struct {
	cases, goroutines, races, results int
	modes, procs                      map[string]int
	distinct                          map[string]struct{}
	samples                           []string
}

// packageSignedOp: the packaging with a passphrase-protected key (signatures differ from run to run: only success
// and the race detector's verdict are observed)
func packageSignedOp(cfg *nfpm.Config, format string) string {
	info, err := cfg.Get(format)
	if err != nil {
		return "pkg-err:parse"
	}
	info = nfpm.WithDefaults(info)
	switch format {
	case "deb":
		info.Deb.Signature.KeyFile, info.Deb.Signature.KeyPassphrase = testdata("privkey.asc"), testPass
	case "rpm":
		info.RPM.Signature.KeyFile, info.RPM.Signature.KeyPassphrase = testdata("privkey.asc"), testPass
	case "apk":
		info.APK.Signature.KeyFile, info.APK.Signature.KeyPassphrase, info.APK.Signature.KeyName = testdata("rsa.priv"), testPass, "verif"
	}
	p, err := nfpm.Get(format)
	if err != nil {
		return "pkg-err:" + err.Error()
	}
	var buf limitedWriter
	if err := p.Package(info, &buf); err != nil {
		return "pkg-err:" + err.Error()
	}
	return "pkg:signed"
}

type c12Job struct {
	id string
	d  concDesc
}

// runC12Group runs the cases of one configuration (they share its files) in concurrent child processes
func runC12Group(w *caseWriter, jobs []c12Job, st *c12Stats) {
	if len(jobs) == 0 {
		return
	}
	writeExtraFiles(jobs[0].d.Files)
	defer removeExtraFiles(jobs[0].d.Files)
	for i := range jobs {
		jobs[i].d.Refs = map[string]string{}
		if jobs[i].d.Mode == "signed" {
			continue
		}
		for k, f := range jobs[i].d.Formats {
			if jobs[i].d.Mode == "gated-independent" && k == 1 {
				jobs[i].d.Refs["2:"+f] = freshProcessOutput(jobs[i].d.YAML2, "pkg:"+f)
			} else {
				jobs[i].d.Refs[f] = freshProcessOutput(jobs[i].d.YAML, "pkg:"+f)
			}
		}
	}
	self, err := os.Executable()
	must(err)
	child := filepath.Join(filepath.Dir(self), "harness-race")
	type result struct {
		lines   []string
		cerr    error
		races   int
		excerpt string
	}
	results := make([]result, len(jobs))
	var wg sync.WaitGroup
	for i := range jobs {
		wg.Add(1)
		go func(i int) {
			defer wg.Done()
			tmp, err := os.MkdirTemp("", "verif-c12-")
			must(err)
			defer os.RemoveAll(tmp)
			raw, _ := json.Marshal(jobs[i].d)
			must(os.WriteFile(filepath.Join(tmp, "desc.json"), raw, 0o644))
			// packagings that wait for one another for ever are a failure too: the child gets 150 seconds (a case takes less than a minute under the race detector)
			ctx, cancel := context.WithTimeout(context.Background(), 150*time.Second)
			defer cancel()
			cmd := exec.CommandContext(ctx, child, "C12ONE", filepath.Join(tmp, "desc.json"), filepath.Join(tmp, "out.txt"))
			cmd.Env = append(os.Environ(), "GORACE=log_path="+filepath.Join(tmp, "race")+" halt_on_error=0 exitcode=0")
			r := &results[i]
			r.cerr = cmd.Run()
			if ctx.Err() != nil {
				r.cerr = fmt.Errorf("no result within 150 seconds - the concurrent packagings did not finish (%v)", r.cerr)
			}
			if lines, err := os.ReadFile(filepath.Join(tmp, "out.txt")); err == nil {
				r.lines = strings.Split(strings.TrimRight(string(lines), "\n"), "\n")
			}
			logs, _ := filepath.Glob(filepath.Join(tmp, "race*"))
			for _, l := range logs {
				b, _ := os.ReadFile(l)
				r.races += strings.Count(string(b), "WARNING: DATA RACE")
				if r.excerpt == "" && len(b) > 0 {
					r.excerpt = raceExcerpt(string(b))
				}
			}
		}(i)
	}
	wg.Wait()
	for i, j := range jobs {
		writeDesc(j.id, j.d)
		r := results[i]
		w.line("ccase %s", j.id)
		for _, l := range r.lines {
			if l != "" {
				w.line("%s", l)
			}
		}
		if r.cerr != nil {
			w.line("cchild %s", xs(r.cerr.Error()))
		}
		w.line("crace %d %s", r.races, xs(r.excerpt))
		w.line("cend")
		st.cases++
		st.goroutines += len(j.d.Formats) * j.d.Rounds
		for _, l := range r.lines {
			if strings.HasPrefix(l, "cres ") {
				st.results++
			}
		}
		st.races += r.races
		st.modes[j.d.Mode]++
		st.procs[fmt.Sprint(j.d.Procs)]++
		raw, _ := json.Marshal(j.d)
		st.distinct[hexsum(sha256b, raw)] = struct{}{}
		if len(st.samples) < 3 {
			st.samples = append(st.samples, fmt.Sprintf("%s: %s GOMAXPROCS=%d %v x%d", j.id, j.d.Mode, j.d.Procs, j.d.Formats, j.d.Rounds))
		}
	}
}

func runC12Case(w *caseWriter, id string, d concDesc, st *c12Stats) {
	runC12Group(w, []c12Job{{id, d}}, st)
}

// raceExcerpt keeps the nfpm frames of the first report
func raceExcerpt(s string) string {
	var keep []string
	for _, l := range strings.Split(s, "\n") {
		t := strings.TrimSpace(l)
		if strings.HasPrefix(t, "WARNING") || strings.HasPrefix(t, "Write at") || strings.HasPrefix(t, "Read at") ||
			strings.HasPrefix(t, "Previous") || strings.Contains(t, "goreleaser/nfpm") {
			keep = append(keep, t)
		}
		if len(keep) > 14 {
			break
		}
	}
	return strings.Join(keep, " | ")
}

func cmdC12(tier string, seed int64, out, statsOut, replay string) {
	_, cleanup := pkgWorkdir()
	defer cleanup()
	w := newCaseWriter(out)
	st := &c12Stats{modes: map[string]int{}, procs: map[string]int{}, distinct: map[string]struct{}{}}
	if replay != "" {
		readDescs(replay, func(id string, raw json.RawMessage) {
			var d concDesc
			must(json.Unmarshal(raw, &d))
			if d.Rounds < 20 {
				d.Rounds = 20 // a schedule cannot be replayed: more rounds instead
			}
			runC12Case(w, id, d, st)
		})
		w.close()
		writeJSON(statsOut, map[string]any{"cases": st.cases})
		return
	}
	rng := rand.New(rand.NewSource(seed))
	g := &pkgGen{rng: rng}
	manyFiles()
	nCfg, rounds, procs := 4, 3, []int{2, 16}
	if tier != "quick" {
		nCfg, rounds, procs = 16, 8, []int{1, 2, 4, 8, 16}
	}
	twice := append(append([]string{}, allFormats...), allFormats...)
	for ci := 0; ci < nCfg; ci++ {
		gen := histConfig(g, ci*3) // every one with a tree and a per-format umask
		docBuildable := marshalConfig(&gen.cfg) // before anything below makes a format fail: the signed cases need every build to succeed
		switch ci % 4 {
		case 1:
			// no maintainer: deb and ipk fill in a default and print a notice - the first packagings of a process that do
			// so are these, all at once
			gen.cfg.Maintainer = ""
		case 2:
			// a pattern one of whose matches collides with an entry addressed to ONE format: that format fails while the
			// others, reading the same entries, build
			broken := allFormats[(ci/4)%len(allFormats)]
			gen.cfg.Contents = append(gen.cfg.Contents,
				&files.Content{Source: "src/d/x", Destination: fmt.Sprintf("/etc/conc%d/x", ci), Packager: broken},
				&files.Content{Source: "src/d/*", Destination: fmt.Sprintf("/etc/conc%d", ci), Type: files.TypeConfig},
				&files.Content{Source: "src/k/conf.d", Destination: fmt.Sprintf("/etc/conc%d/conf.d", ci)})
		}
		doc := marshalConfig(&gen.cfg)
		// the same with a payload of several MiB: block sizes and work splitting of the parallel compressors come into play
		bigCfg := gen.cfg
		bigCfg.Contents = append(append(files.Contents{}, gen.cfg.Contents...),
			&files.Content{Source: "src/big2.bin", Destination: fmt.Sprintf("/opt/conc%d/big2-a.bin", ci)},
			&files.Content{Source: "src/big2.bin", Destination: fmt.Sprintf("/opt/conc%d/big2-b.bin", ci)})
		docBig := marshalConfig(&bigCfg)
		var jobs []c12Job
		runC12Case := func(w *caseWriter, id string, d concDesc, st *c12Stats) { jobs = append(jobs, c12Job{id, d}) }
		for _, p := range procs {
			// different formats from one parsed configuration (each format once: the property's first clause)
			runC12Case(w, fmt.Sprintf("shared-%d-p%d", ci, p), concDesc{YAML: doc, Files: gen.files, Mode: "shared", Formats: allFormats, Procs: p, Rounds: rounds, Seed: seed + int64(ci)}, st)
			// any formats from independently built settings: every format twice, and one format six times
			runC12Case(w, fmt.Sprintf("indep-%d-p%d", ci, p), concDesc{YAML: doc, Files: gen.files, Mode: "independent", Formats: twice, Procs: p, Rounds: rounds, Seed: seed + int64(ci)}, st)
			// signed packagings with a passphrase-protected key, from independent configurations (each child process
			// is one chance to see the first use of the key from many goroutines at once)
			for k := 0; k < 2; k++ {
				runC12Case(w, fmt.Sprintf("signed-%d-p%d-%d", ci, p, k), concDesc{YAML: docBuildable, Files: gen.files, Mode: "signed",
					Formats: []string{"deb", "rpm", "deb", "rpm", "deb", "rpm", "deb", "rpm", "apk", "apk", "deb", "rpm"}, Procs: p, Rounds: 1, Seed: seed + int64(ci)}, st)
			}
			// the format with a shared atomic counter and a parallel compressor, several at once
			if ci == 0 || tier != "quick" {
				runC12Case(w, fmt.Sprintf("same-%d-p%d-apk-big", ci, p), concDesc{YAML: docBig, Files: gen.files, Mode: "independent", Formats: []string{"apk", "apk", "apk"}, Procs: p, Rounds: 2, Seed: seed + int64(ci)}, st)
			}
			// several packagings of a tree of a few hundred files at once (whatever is rationed per process - open
			// files, workers - is asked for by all of them together)
			if ci == 0 {
				manyCfg := gen.cfg
				manyCfg.Contents = append(append(files.Contents{}, gen.cfg.Contents...), &files.Content{Source: "many", Destination: "/opt/many", Type: "tree"})
				runC12Case(w, fmt.Sprintf("many-files-%d-p%d", ci, p), concDesc{YAML: marshalConfig(&manyCfg), Files: gen.files, Mode: "independent",
					Formats: []string{"archlinux", "archlinux", "archlinux", "deb", "ipk", "archlinux", "deb", "ipk"}, Procs: p, Rounds: 1, Seed: seed + int64(ci)}, st)
			}
			// the configuration without a maintainer: the two formats that print a notice about it, several of each at once,
			// in three fresh processes (whatever the first notice of a process sets up is set up by all of them together)
			if ci%4 == 1 {
				for k := 0; k < 3; k++ {
					runC12Case(w, fmt.Sprintf("notice-%d-p%d-%d", ci, p, k), concDesc{YAML: doc, Files: gen.files, Mode: "independent",
						Formats: []string{"deb", "ipk", "deb", "ipk", "deb", "ipk", "deb", "ipk"}, Procs: p, Rounds: 1, Seed: seed + int64(ci)}, st)
				}
			}
			f := allFormats[(ci+p)%len(allFormats)]
			runC12Case(w, fmt.Sprintf("same-%d-p%d-%s", ci, p, f), concDesc{YAML: doc, Files: gen.files, Mode: "independent", Formats: []string{f, f, f, f, f, f}, Procs: p, Rounds: rounds, Seed: seed + int64(ci)}, st)
		}
		other := gen.cfg
		other.Name += "-b"
		other.Description = "another package altogether\nwith its own description"
		other.Depends = append([]string{"other-dep (>= 9)"}, other.Depends...)
		other.Maintainer = "Somebody Else <else@example.com>"
		doc2 := marshalConfig(&other)
		if ci == 0 || tier != "quick" {
			// one packaging held at each of its output writes while another runs to completion: same format from
			// independent configurations (all five), and neighbouring formats from one parsed configuration
			for fi, f := range allFormats {
				for _, p := range []int{1, 2} {
					runC12Case(w, fmt.Sprintf("gated-%d-%s-%s-p%d", ci, f, f, p), concDesc{YAML: doc, YAML2: doc2, Files: gen.files, Mode: "gated-independent", Formats: []string{f, f}, Procs: p, Rounds: 1, Seed: seed}, st)
				}
				g2 := allFormats[(fi+1)%len(allFormats)]
				runC12Case(w, fmt.Sprintf("gated-%d-%s-%s-shared", ci, f, g2), concDesc{YAML: doc, Files: gen.files, Mode: "gated-shared", Formats: []string{f, g2}, Procs: 1, Rounds: 1, Seed: seed}, st)
			}
		}
		runC12Group(w, jobs, st)
	}
	w.close()
	writeJSON(statsOut, map[string]any{"cases": st.cases, "goroutines_run": st.goroutines, "results_compared": st.results, "race_reports": st.races, "modes": st.modes, "gomaxprocs": st.procs,
		"distinct": len(st.distinct), "distinct_nontrivial": len(st.distinct), "samples": st.samples})
}
