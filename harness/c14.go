package main

import (
	"bytes"
	"fmt"
	"gopkg.in/yaml.v3"
	"math/rand"
	"os/exec"
	"strings"
	"time"

	"github.com/goreleaser/nfpm/v2"
)

type c14Stats struct {
	cases, splits, pairs, dpkgChecked int
	pkgs                              int
	parsed, verbatim                  int
	distinct                          map[string]struct{}
	samples                           []string
}

var preIdents = []string{"rc1", "beta", "alpha-2", "0", "7", "x-y", "-", "0a", "rc", "1", "14-g2414721", "3-gabcdef0"}
var metaIdents = []string{"git", "abc123", "20240101", "001", "b-7", "-"}

func genSemver(rng *rand.Rand) string {
	num := func() string {
		switch rng.Intn(6) {
		case 0:
			return "0"
		case 1:
			return fmt.Sprint(rng.Intn(10))
		case 2:
			return fmt.Sprint(10 + rng.Intn(90))
		case 3:
			return "18446744073709551615"
		default:
			return fmt.Sprint(rng.Intn(1000))
		}
	}
	v := num()
	if rng.Intn(6) > 0 {
		v += "." + num()
		if rng.Intn(6) > 0 {
			v += "." + num()
		}
	}
	if rng.Intn(3) == 0 {
		v = "v" + v
	}
	idents := func(pool []string) string {
		n := 1 + rng.Intn(3)
		var p []string
		for i := 0; i < n; i++ {
			p = append(p, pool[rng.Intn(len(pool))])
		}
		return strings.Join(p, ".")
	}
	if rng.Intn(2) == 0 {
		v += "-" + idents(preIdents)
	}
	if rng.Intn(3) == 0 {
		v += "+" + idents(metaIdents)
	}
	return v
}

// near misses: strings one edit away from the grammar that must not parse (or parse differently)
func mutateVersion(rng *rand.Rand, v string) string {
	switch rng.Intn(10) {
	case 0:
		return v + "."
	case 1:
		return "V" + strings.TrimPrefix(v, "v")
	case 2:
		return strings.Replace(v, ".", ".0", 1)
	case 3:
		return v + "-"
	case 4:
		return v + "+"
	case 5:
		return strings.Replace(v, "-", "-01.", 1)
	case 6:
		return v + ".4.5"
	case 7:
		return " " + v
	case 8:
		return strings.Replace(v, ".", "..", 1)
	default:
		return "18446744073709551616." + v
	}
}

func decodeVersionFields(format string, raw []byte) (map[string]string, error) {
	o, err := decodePackage(format, raw)
	if err != nil {
		return nil, err
	}
	m := map[string]string{}
	for _, f := range o.Meta {
		if _, ok := m[f.K]; !ok {
			m[f.K] = f.V
		}
	}
	return m, nil
}

func buildVersionOf(format string, version, pre, meta, release, epoch string) (map[string]string, error) {
	info := nfpm.WithDefaults(&nfpm.Info{
		Name: "p", Arch: "amd64", Version: version, Prerelease: pre, VersionMetadata: meta, Release: release, Epoch: epoch,
		Maintainer: "M <m@example.com>", Description: "d", MTime: time.Unix(1700000000, 0).UTC(),
	})
	info.RPM.BuildHost = "h"
	p, err := nfpm.Get(format)
	if err != nil {
		return nil, err
	}
	var buf bytes.Buffer
	if err := p.Package(info, &buf); err != nil {
		return nil, err
	}
	return decodeVersionFields(format, buf.Bytes())
}

// pkgEvery: build packages for every n-th split case (1 while forced cases and the corpus run)
var pkgEvery = 1

func buildVersionSchemaOf(format, schema, version, pre, meta string) (m map[string]string, err error) {
	defer func() {
		if r := recover(); r != nil {
			m, err = nil, fmt.Errorf("panic: %v", r)
		}
	}()
	info := nfpm.WithDefaults(&nfpm.Info{
		Name: "p", Arch: "amd64", Version: version, Prerelease: pre, VersionMetadata: meta, VersionSchema: schema,
		Maintainer: "M <m@example.com>", Description: "d", MTime: time.Unix(1700000000, 0).UTC(),
	})
	info.RPM.BuildHost = "h"
	p, err := nfpm.Get(format)
	if err != nil {
		return nil, err
	}
	var buf bytes.Buffer
	if err := p.Package(info, &buf); err != nil {
		return nil, err
	}
	return decodeVersionFields(format, buf.Bytes())
}

func dpkgLess(a, b string) (string, bool) {
	if _, err := exec.LookPath("dpkg"); err != nil {
		return "", false
	}
	res := func(op string) bool { return exec.Command("dpkg", "--compare-versions", a, op, b).Run() == nil }
	switch {
	case res("lt"):
		return "lt", true
	case res("eq"):
		return "eq", true
	default:
		return "gt", true
	}
}

func cmdC14(tier string, seed int64, out, statsOut, replay string) {
	w := newCaseWriter(out)
	st := &c14Stats{distinct: map[string]struct{}{}}
	rng := rand.New(rand.NewSource(seed))
	nSplit, nPairs, nDpkg := 4000, 150, 120
	if tier != "quick" {
		nSplit, nPairs, nDpkg = 60000, 1500, 1500
	}
	emitSplit := func(id, schema, v, pre, meta string) {
		info := nfpm.WithDefaults(&nfpm.Info{Version: v, Prerelease: pre, VersionMetadata: meta, VersionSchema: schema})
		w.line("vsplit %s %s %s %s %s %s %s %s", id, xs(schema), xs(v), xs(pre), xs(meta), xs(info.Version), xs(info.Prerelease), xs(info.VersionMetadata))
		writeDesc(id, map[string]string{"kind": "split", "schema": schema, "version": v, "prerelease": pre, "metadata": meta})
		// the same through the front door: a YAML document, Parse, Get, WithDefaults (what `nfpm package` does);
		// reported as a case of its own when the document parses and the outcome differs from the direct one
		for vi, viaEnv := range []int{0, 1, 2} {
			fields := map[string]string{"name": "p", "arch": "amd64", "version": v, "prerelease": pre, "version_metadata": meta, "version_schema": schema}
			mapping := func(string) string { return "" }
			if viaEnv == 2 {
				// the version as written, the prerelease through the environment (empty when none is configured)
				if strings.Contains(v+pre+meta, "$") {
					continue
				}
				fields["prerelease"] = "${VERIF_P}"
				mapping = func(k string) string { return map[string]string{"VERIF_P": pre}[k] }
			}
			if viaEnv == 1 {
				// the same values supplied through the environment: what is split is the expanded version
				if strings.Contains(v+pre+meta, "$") {
					continue
				}
				// (version and prerelease are documented as expandable; version_metadata is not)
				fields["version"], fields["prerelease"] = "${VERIF_V}", "${VERIF_P}"
				mapping = func(k string) string { return map[string]string{"VERIF_V": v, "VERIF_P": pre}[k] }
			}
			doc, err := yaml.Marshal(fields)
			if err != nil {
				continue
			}
			id := id + []string{"", "-env", "-prerelease-env"}[vi]
			if cfg, err := nfpm.ParseWithEnvMapping(bytes.NewReader(doc), mapping); err == nil {
				// what Parse itself left in the configuration (a library user reads it without another WithDefaults)
				if cfg.Version != info.Version || cfg.Prerelease != info.Prerelease || cfg.VersionMetadata != info.VersionMetadata {
					w.line("vsplit %s %s %s %s %s %s %s %s", id+"-as-parsed", xs(schema), xs(v), xs(pre), xs(meta), xs(cfg.Version), xs(cfg.Prerelease), xs(cfg.VersionMetadata))
					writeDesc(id+"-as-parsed", map[string]string{"kind": "split", "schema": schema, "version": v, "prerelease": pre, "metadata": meta, "via": "yaml, as parsed"})
					st.cases++
				}
				if got, err := cfg.Get("deb"); err == nil {
					i2 := nfpm.WithDefaults(got)
					if i2.Version != info.Version || i2.Prerelease != info.Prerelease || i2.VersionMetadata != info.VersionMetadata {
						w.line("vsplit %s %s %s %s %s %s %s %s", id+"-via-yaml", xs(schema), xs(v), xs(pre), xs(meta), xs(i2.Version), xs(i2.Prerelease), xs(i2.VersionMetadata))
						writeDesc(id+"-via-yaml", map[string]string{"kind": "split", "schema": schema, "version": v, "prerelease": pre, "metadata": meta, "via": "yaml"})
						st.cases++
					}
				}
			}
		}
		// what the packagers then write: the version field of a deb, an ipk and an rpm built from these settings
		// (every eighth generated case, every forced and corpus case)
		if pkgEvery > 0 && (st.splits%pkgEvery == 0) {
			for _, format := range []string{"deb", "ipk", "rpm"} {
				m, err := buildVersionSchemaOf(format, schema, v, pre, meta)
				if err != nil || m == nil {
					w.line("vpkg %s %s err", id, xs(format))
					continue
				}
				w.line("vpkg %s %s ok %s %s %s %s %s", id, xs(format), xs(schema), xs(v), xs(pre), xs(meta), xs(m["Version"]))
				st.pkgs++
			}
		}
		st.splits++
		st.cases++
		if info.Version != v || v == "" {
			st.parsed++
		} else {
			st.verbatim++
		}
		k := schema + "|" + v + "|" + pre + "|" + meta
		if _, ok := st.distinct[k]; !ok {
			st.distinct[k] = struct{}{}
			if len(st.samples) < 6 && strings.ContainsAny(v, "-+") {
				st.samples = append(st.samples, fmt.Sprintf("split schema=%q version=%q prerelease=%q metadata=%q -> %q %q %q", schema, v, pre, meta, info.Version, info.Prerelease, info.VersionMetadata))
			}
		}
	}
	if replay != "" {
		replayC14(replay, w, st, emitSplit)
		w.close()
		writeJSON(statsOut, map[string]any{"cases": st.cases, "distinct_nontrivial": len(st.distinct), "samples": st.samples})
		return
	}
	for _, f := range corpusFiles("C14") {
		replayC14(f, w, st, emitSplit)
	}
	// documents written by hand, the version without quotes (YAML would read 1.10 as a number): a version is text
	for li, lit := range []struct{ version, rest string }{{"1.10", "version_metadata: git7\n"}, {"1.20", "release: 1.20\n"}, {"2.0", "epoch: 010\nversion_metadata: b1\n"},
		{"0.10.0", "prerelease: rc.10\n"}, {"1.10", ""}, {"010", "version_metadata: x\nversion_schema: none\n"}} {
		doc := "name: p\narch: amd64\nversion: " + lit.version + "\n" + lit.rest
		id := fmt.Sprintf("literal-%d", li)
		cfg, err := nfpm.ParseWithEnvMapping(strings.NewReader(doc), func(string) string { return "" })
		if err != nil {
			continue
		}
		var rawCfg nfpm.Config
		if yaml.Unmarshal([]byte(doc), &rawCfg) != nil {
			continue
		}
		// the components as the document writes them (decoded as text by a plain decoder of the same type), against what Parse left
		w.line("vsplit %s %s %s %s %s %s %s %s", id, xs(rawCfg.VersionSchema), xs(lit.version), xs(rawCfg.Prerelease), xs(rawCfg.VersionMetadata), xs(cfg.Version), xs(cfg.Prerelease), xs(cfg.VersionMetadata))
		writeDesc(id, map[string]string{"kind": "split", "schema": rawCfg.VersionSchema, "version": lit.version, "prerelease": rawCfg.Prerelease, "metadata": rawCfg.VersionMetadata, "via": "a hand-written document: " + doc})
		st.cases++
	}
	pick := func(l []string) string { return l[rng.Intn(len(l))] }
	// forced: versions that are used as written (schema none, or not a semantic version) and start like a tag; explicit
	// components a semantic-version library would not accept beside a component embedded in the version
	fi := 0
	for _, schema := range []string{"", "none", "semver"} {
		for _, v := range []string{"v1.2.3", "v1.2.3.4", "v2024.01.15", "v1.02.3", "V1.2.3", "v7", "vista.3", "1.2.3.4", "v1.4.0+g1a2b3c4", "1.4.0-rc.1", "v1.4.0-rc.1+b7", "1.4.0",
			// what `git describe` prints after a tag: a prerelease like any other
			"1.2.3-14-g2414721", "v1.0.0-rc1-3-gabcdef0", "2.0.0-x-7-g0123abc", "1.2", "1", "v3"} {
			for _, pm := range [][2]string{{"", ""}, {"nightly.2024.01.15", ""}, {"", "build_77"}, {"rc..1", ""}, {"a~b", "x+y"}, {"01", "001"}} {
				fi++
				emitSplit(fmt.Sprintf("f-%d", fi), schema, v, pm[0], pm[1])
			}
		}
	}
	pkgEvery = 8
	for i := 0; i < nSplit; i++ {
		v := genSemver(rng)
		if rng.Intn(4) == 0 {
			v = mutateVersion(rng, v)
		}
		if rng.Intn(50) == 0 {
			v = ""
		}
		pre, meta := "", ""
		if rng.Intn(3) == 0 {
			pre = pick([]string{"beta1", "rc.2", "alpha-3", "nightly.2024.01.15", "rc..1", "pre_1"})
		}
		if rng.Intn(3) == 0 {
			meta = pick([]string{"git5", "b.7", "build_77", "007"})
		}
		emitSplit(fmt.Sprintf("v-%d", i), pick([]string{"", "", "semver", "none", "bogus"}), v, pre, meta)
	}
	// ordering: the strings the packagers really write for a prerelease build and for the release
	for i := 0; i < nPairs; i++ {
		base := fmt.Sprintf("%d.%d.%d", rng.Intn(20), rng.Intn(20), rng.Intn(20))
		pre := pick([]string{"rc1", "beta.2", "alpha-3", "0", "1", "0.3.7", "x-y", "rc.1-hot", "-", "20"})
		meta := pick([]string{"", "", "git.abc", "20240101", "b-7"})
		rel := pick([]string{"", "1", "2", "3.el9"})
		epoch := pick([]string{"", "", "0", "1", "4"})
		viaVersion := rng.Intn(2) == 0
		id := fmt.Sprintf("o-%d", i)
		writeDesc(id, map[string]string{"kind": "order", "base": base, "prerelease": pre, "metadata": meta, "release": rel, "epoch": epoch, "embedded": fmt.Sprint(viaVersion)})
		for _, format := range []string{"deb", "ipk", "rpm"} {
			var a map[string]string
			var err error
			if viaVersion {
				v := base + "-" + pre
				if meta != "" {
					v += "+" + meta
				}
				a, err = buildVersionOf(format, v, "", "", rel, epoch)
			} else {
				a, err = buildVersionOf(format, base, pre, meta, rel, epoch)
			}
			vr := base
			if meta != "" {
				vr += "+" + meta
			}
			b, err2 := buildVersionOf(format, vr, "", "", rel, epoch)
			// a higher epoch on the prerelease build, and a numerically higher patch level
			hiEpoch, _ := buildVersionOf(format, base, pre, meta, rel, "9")
			parts := strings.Split(base, ".")
			next := fmt.Sprintf("%s.%s.%d", parts[0], parts[1], atoiOr(parts[2])+1+rng.Intn(100))
			higher, _ := buildVersionOf(format, next, "", meta, rel, epoch)
			if err != nil || err2 != nil || hiEpoch == nil || higher == nil {
				w.line("vorder %s %s err", id, xs(format))
				continue
			}
			ver := func(m map[string]string) string {
				if format == "rpm" {
					e := m["Epoch"]
					return e + "|" + m["Version"] + "|" + m["Release"]
				}
				return m["Version"]
			}
			w.line("vorder %s %s ok %s %s %s %s", id, xs(format), xs(ver(a)), xs(ver(b)), xs(ver(hiEpoch)), xs(ver(higher)))
			st.pairs++
			if len(st.samples) < 10 {
				st.samples = append(st.samples, fmt.Sprintf("order %s: prerelease build %q vs release %q", format, ver(a), ver(b)))
			}
		}
		st.cases++
	}
	// epochs at and beyond what rpm's 32-bit field holds: either the package is refused, or the higher epoch sorts higher
	for i, big := range []string{"4294967295", "4294967296", "4294967299", "8589934594"} {
		id := fmt.Sprintf("o-big-epoch-%s", big)
		_ = i
		writeDesc(id, map[string]string{"kind": "order", "base": "1.0.0", "prerelease": "rc1", "metadata": "", "release": "1", "epoch": big, "embedded": "false"})
		lo, err1 := buildVersionOf("rpm", "1.0.0", "rc1", "", "1", "5")
		rel, err2 := buildVersionOf("rpm", "1.0.0", "", "", "1", "5")
		hi, err3 := buildVersionOf("rpm", "1.0.0", "rc1", "", "1", big)
		higher, err4 := buildVersionOf("rpm", "1.0.1", "", "", "1", "5")
		if err1 != nil || err2 != nil || err3 != nil || err4 != nil || hi == nil {
			w.line("vorder %s %s err", id, xs("rpm"))
			continue
		}
		ver := func(m map[string]string) string { return m["Epoch"] + "|" + m["Version"] + "|" + m["Release"] }
		w.line("vorder %s %s ok %s %s %s %s", id, xs("rpm"), xs(ver(lo)), xs(ver(rel)), xs(ver(hi)), xs(ver(higher)))
		st.pairs++
		st.cases++
	}
	// the Gallina port of dpkg's comparison against dpkg itself
	chars := []string{"1", "0", "9", "a", "Z", "~", "+", ".", "-", ":", "10", "rc", "~~"}
	for i := 0; i < nDpkg; i++ {
		mk := func() string {
			s := fmt.Sprint(rng.Intn(3))
			if rng.Intn(4) == 0 {
				s = fmt.Sprintf("%d:%s", rng.Intn(3), s)
			}
			n := rng.Intn(6)
			for j := 0; j < n; j++ {
				c := chars[rng.Intn(len(chars))]
				if c == ":" {
					c = "."
				}
				s += c
			}
			return strings.TrimRight(s, "-")
		}
		a, b := mk(), mk()
		if rng.Intn(3) == 0 {
			b = a + pick([]string{"~x", "+x", "-1", ".0", "0", "a"})
		}
		if r, ok := dpkgLess(a, b); ok {
			w.line("vdpkg %s %s %s", xs(a), xs(b), r)
			st.dpkgChecked++
		}
	}
	w.close()
	writeJSON(statsOut, map[string]any{"cases": st.cases, "splits": st.splits, "order_pairs": st.pairs, "dpkg_pairs": st.dpkgChecked, "packages_built_for_their_version_field": st.pkgs,
		"parsed_as_semver": st.parsed, "kept_verbatim": st.verbatim, "distinct": len(st.distinct), "distinct_nontrivial": len(st.distinct), "samples": st.samples})
}

func atoiOr(s string) int {
	n := 0
	fmt.Sscanf(s, "%d", &n)
	return n
}
