package main

// C07 cases: every package built again and again - in this process, in other processes under another timezone and
// GOMAXPROCS, more than a second later, with sources referenced by absolute path - and compared byte for byte; and
// every timestamp stored anywhere in it, with the set of times it may legitimately come from.

import (
	"strconv"
	"encoding/hex"
	"encoding/json"
	"fmt"
	"math/rand"
	"os"
	"os/exec"
	"path/filepath"
	"reflect"
	"sort"
	"strings"
	"time"

	"github.com/goreleaser/nfpm/v2"
	"github.com/goreleaser/nfpm/v2/files"
	"gopkg.in/yaml.v3"
)

type reproDesc struct {
	YAML  string      `json:"yaml"`
	Files []extraFile `json:"files"`
	SDE   string      `json:"source_date_epoch,omitempty"` // the package mtime comes from the environment, not the document
}

type c07Stats struct {
	cases, builds, stamps, procs int
	envs                        map[string]int
	built                       map[string]int
	distinct                    map[string]struct{}
	samples                     []string
}

var childEnvs = [][]string{
	{"TZ=Pacific/Kiritimati", "GOMAXPROCS=1"},
	{"TZ=America/Los_Angeles", "GOMAXPROCS=3"},
	{"TZ=Asia/Kolkata", "GOMAXPROCS=16"},
	{"TZ=UTC", "GOMAXPROCS=2"},
	{"TZ=Europe/Berlin", "GOMAXPROCS=7"},
	// a machine with one processor (an affinity mask of a single CPU, where taskset is installed)
	{"TZ=UTC", "VERIF_ONE_CPU=1"},
}

func childBuild(doc, format string, env []string) string {
	self, err := os.Executable()
	must(err)
	must(os.WriteFile(".repro.yaml", []byte(doc), 0o644))
	defer os.Remove(".repro.yaml")
	cmd := exec.Command(self, "OP", ".repro.yaml", "pkg:"+format)
	for _, e := range env {
		if e == "VERIF_ONE_CPU=1" {
			if ts, err := exec.LookPath("taskset"); err == nil {
				cmd = exec.Command(ts, "-c", "0", self, "OP", ".repro.yaml", "pkg:"+format)
			}
		}
	}
	cmd.Env = append(os.Environ(), env...)
	out, err := cmd.Output()
	if err != nil {
		return "child-failed:" + err.Error()
	}
	return string(out)
}

// absoluteVariant rewrites every file reference of the configuration to an absolute path
func absoluteVariant(doc string) (string, int) {
	cfg, err := parseDoc(doc)
	if err != nil {
		return doc, 0
	}
	cwd, _ := os.Getwd()
	n := 0
	for ri, r := range collectRefs(cfg) {
		if strings.HasPrefix(r.kind, "key:") || filepath.IsAbs(r.get) {
			continue
		}
		collectRefs(cfg)[ri].set(cfg, filepath.Join(cwd, r.get))
		n++
	}
	return marshalConfig(cfg), n
}

func buildOnce(doc, format string) ([]byte, string) {
	cfg, err := parseDoc(doc)
	if err != nil {
		return nil, "pkg-err:parse"
	}
	raw, err := packageShared(cfg, format)
	if err != nil {
		return nil, "pkg-err:" + classifyPkgErr(err)
	}
	return raw, "pkg:" + hexsum(sha256b, raw)
}

// the times a stamp may come from: every file and directory below the places sources live in
func diskTimes() []int64 {
	seen := map[int64]bool{}
	for _, root := range []string{"src", "scripts", "changelog.yaml", "many", "stage", "hardlinks"} {
		filepath.Walk(root, func(p string, info os.FileInfo, err error) error {
			if err == nil {
				seen[info.ModTime().Unix()] = true
			}
			return nil
		})
	}
	var out []int64
	for t := range seen {
		out = append(out, t)
	}
	sort.Slice(out, func(i, j int) bool { return out[i] < out[j] })
	return out
}

func declaredTimes(cfg *nfpm.Config) []int64 {
	seen := map[int64]bool{}
	add := func(cs []*nfpmContent) {}
	_ = add
	var walk func(v reflect.Value)
	walk = func(v reflect.Value) {
		switch v.Kind() {
		case reflect.Ptr:
			if !v.IsNil() {
				walk(v.Elem())
			}
		case reflect.Slice:
			for i := 0; i < v.Len(); i++ {
				walk(v.Index(i))
			}
		case reflect.Map:
			for _, k := range v.MapKeys() {
				walk(v.MapIndex(k))
			}
		case reflect.Struct:
			if t, ok := v.Interface().(time.Time); ok {
				if !t.IsZero() {
					seen[t.Unix()] = true
				}
				return
			}
			for i := 0; i < v.NumField(); i++ {
				if v.Type().Field(i).IsExported() {
					walk(v.Field(i))
				}
			}
		}
	}
	walk(reflect.ValueOf(cfg.Contents))
	for _, o := range cfg.Overrides {
		if o != nil {
			walk(reflect.ValueOf(o.Contents))
		}
	}
	var out []int64
	for t := range seen {
		out = append(out, t)
	}
	sort.Slice(out, func(i, j int) bool { return out[i] < out[j] })
	return out
}

type nfpmContent struct{}

func runC07Case(w *caseWriter, id string, d reproDesc, first map[string]string, idx int, st *c07Stats) {
	writeDesc(id, d)
	writeExtraFiles(d.Files)
	defer removeExtraFiles(d.Files)
	w.line("rcase %s", id)
	cfg, err := parseDoc(d.YAML)
	if err != nil {
		w.line("rparse err")
		w.line("rend")
		st.cases++
		return
	}
	pkgMTime := cfg.MTime.Unix()
	if d.SDE != "" {
		os.Setenv("SOURCE_DATE_EPOCH", d.SDE)
		defer os.Unsetenv("SOURCE_DATE_EPOCH")
		pkgMTime, _ = strconv.ParseInt(d.SDE, 10, 64)
	}
	w.line("rmtime %d %s", pkgMTime, xs(cfg.RPM.BuildHost))
	for _, t := range declaredTimes(cfg) {
		w.line("rallow declared %d", t)
	}
	for _, t := range diskTimes() {
		w.line("rallow disk %d", t)
	}
	absDoc, nAbs := absoluteVariant(d.YAML)
	for fi, f := range allFormats {
		raw, a := buildOnce(d.YAML, f)
		_, b := buildOnce(d.YAML, f)
		env := childEnvs[(idx+fi)%len(childEnvs)]
		if d.SDE != "" {
			env = append(append([]string{}, env...), "SOURCE_DATE_EPOCH="+d.SDE)
		}
		c := childBuild(d.YAML, f, env)
		rawAbs, e := buildOnce(absDoc, f)
		if dd := os.Getenv("VERIF_DUMP"); dd != "" && a != e {
			os.WriteFile(filepath.Join(dd, id+"-"+f+"-rel"), raw, 0o644)
			os.WriteFile(filepath.Join(dd, id+"-"+f+"-abs"), rawAbs, 0o644)
		}
		late := "-"
		if first != nil {
			late = first[f]
		}
		st.builds += 4
		st.procs++
		st.envs[strings.Join(env, " ")]++
		w.line("rbuild %s %s %s %s %s %s %s %d", xs(f), xs(a), xs(b), xs(c), xs(e), xs(late), xs(strings.Join(env, " ")), nAbs)
		if strings.HasPrefix(a, "pkg:") {
			st.built[f]++
			if strings.Contains(d.YAML, "0-big2.bin") {
				st.built[f+" with large files first"]++
			}
			if d.SDE != "" {
				st.built[f+" with the mtime from SOURCE_DATE_EPOCH"]++
			}
		}
		if raw != nil {
			if o, derr := decodePackage(f, raw); derr == nil || o != nil {
				for _, s := range o.Stamps {
					w.line("rstamp %s %s %d", xs(f), xs(s.Where), s.Value)
					st.stamps++
				}
				// the rpm build host: the one the document fixes (read with a plain decoding: the rpm block of the format's
				// override block, the top-level rpm block otherwise), never a name taken from the machine
				if f == "rpm" {
					if want, ok := plainScalar(d.YAML, "rpm", "rpm", "buildhost"); ok && want != "" && !strings.Contains(want, "$") {
						for _, m := range o.Meta {
							if m.K == "BuildHost" {
								w.line("rhost %s %s", xs(want), xs(m.V))
							}
						}
					}
				}
			}
		}
	}
	w.line("rend")
	st.cases++
	st.distinct[hexsum(sha256b, []byte(d.YAML))] = struct{}{}
	if len(st.samples) < 2 {
		st.samples = append(st.samples, id+":\n"+d.YAML[:min(len(d.YAML), 600)])
	}
}

// reproConfig: a generated configuration within the property's premise: package mtime and rpm build host fixed, no signing
func reproConfig(g *pkgGen, i int) genOut {
	gen := g.config(i)
	c := &gen.cfg
	if c.MTime.IsZero() {
		c.MTime = time.Unix(1700000000+int64(i)*977, 0).UTC()
	}
	if c.RPM.BuildHost == "" {
		c.RPM.BuildHost = "buildhost.example"
	}
	// every configuration builds in every format (a platform apk and archlinux refuse would leave the special
	// shapes below unexercised for them, depending on the draw)
	c.Platform = ""
	c.Deb.Signature.KeyFile, c.RPM.Signature.KeyFile, c.APK.Signature.KeyFile = "", "", ""
	// several entries in every map that reaches the output
	if c.Deb.Fields == nil {
		c.Deb.Fields = map[string]string{}
	}
	for _, k := range []string{"Bugs", "bugs", "Built-Using", "X-A", "x-a", "X-B", "X-C", "X-D"} {
		c.Deb.Fields[k] = "v-" + k
	}
	if c.IPK.Fields == nil {
		c.IPK.Fields = map[string]string{}
	}
	for _, k := range []string{"Source", "X-A", "X-B", "X-C", "X-D"} {
		c.IPK.Fields[k] = "v-" + k
	}
	// a changelog (its dates are rendered as text inside the deb and the rpm)
	if i%2 == 0 && c.Changelog == "" {
		c.Changelog = "changelog.yaml"
		body := changelogYAML
		if i%4 == 2 {
			body = changelogYAMLUndated // an entry without a date: nothing may stand in for it but a constant
		}
		gen.files = append(gen.files, extraFile{Path: "changelog.yaml", Hex: hex.EncodeToString([]byte(body)), Mode: 0o644, MTime: 1650000100})
	}
	// a package mtime in the future (a release date, a far SOURCE_DATE_EPOCH) is an mtime like any other
	if i%4 == 2 {
		c.MTime = time.Unix(4102444800+int64(i), 0).UTC() // 2100-01-01
	}
	// many entries: members whose size crosses the block sizes of the parallel compressors
	if i%4 == 1 {
		c.Contents = append(c.Contents, &files.Content{Source: "many", Destination: fmt.Sprintf("/opt/many%d", i), Type: "tree"})
	}
	// a staging tree whose links are absolute and point back into the tree itself (what make install DESTDIR=... leaves
	// behind): the package must not depend on whether the tree is named by a relative or an absolute path
	if i%2 == 1 {
		c.Contents = append(c.Contents, &files.Content{Source: "stage", Destination: fmt.Sprintf("/opt/stage%d", i), Type: "tree"})
	}
	// a file beyond 4 MiB before others, under the fast compressors (whatever is digested or compressed off the main
	// path must still come out in order); sources that are hard links of one another, found through a directory
	if i%4 == 3 {
		c.Deb.Compression = []string{"none", "zstd"}[(i/4)%2]
		c.Contents = append(c.Contents,
			&files.Content{Source: "stage/huge.bin", Destination: fmt.Sprintf("/opt/a%d/00-huge.bin", i)},
			&files.Content{Source: "stage/huge.bin", Destination: fmt.Sprintf("/opt/a%d/01-huge-again.bin", i)})
	}
	if i%2 == 1 {
		c.Contents = append(c.Contents, &files.Content{Source: "hardlinks/names", Destination: fmt.Sprintf("/opt/links%d", i), Type: files.TypeFile},
			&files.Content{Source: "hardlinks/names/*", Destination: fmt.Sprintf("/opt/links-glob%d/", i)},
			&files.Content{Source: "hardlinks/names/", Destination: fmt.Sprintf("/etc/links%d", i), Type: files.TypeConfig})
	}
	// large files first in destination order, smaller ones after them: whatever is pipelined must still come out in order
	if i%4 == 3 {
		c.Contents = append(c.Contents,
			&files.Content{Source: "src/big2.bin", Destination: fmt.Sprintf("/opt/a%d/0-big2.bin", i)},
			&files.Content{Source: "src/big.bin", Destination: fmt.Sprintf("/opt/a%d/1-big.bin", i)},
			&files.Content{Source: "src/big2.bin", Destination: fmt.Sprintf("/opt/a%d/2-big2-again.bin", i)},
			&files.Content{Source: "src/f1", Destination: fmt.Sprintf("/opt/a%d/3-small", i)},
			&files.Content{Source: "src/f2", Destination: fmt.Sprintf("/opt/a%d/4-small", i)},
			&files.Content{Source: "src/d", Destination: fmt.Sprintf("/opt/a%d/5-tree", i), Type: "tree"})
	}
	return gen
}

// stageTree: a staging directory with absolute links into itself, an absolute link elsewhere and a relative one
func stageTree() {
	must(os.MkdirAll("stage/usr/lib", 0o755))
	wd, err := os.Getwd()
	must(err)
	t := time.Unix(1600000400, 0)
	must(os.WriteFile("stage/usr/lib/libfoo.so.1.2", []byte("elf"), 0o755))
	must(os.Chtimes("stage/usr/lib/libfoo.so.1.2", t, t))
	os.Remove("stage/usr/lib/libfoo.so.1")
	must(os.Symlink(filepath.Join(wd, "stage/usr/lib/libfoo.so.1.2"), "stage/usr/lib/libfoo.so.1"))
	os.Remove("stage/usr/lib/libfoo.so")
	must(os.Symlink("libfoo.so.1", "stage/usr/lib/libfoo.so"))
	os.Remove("stage/usr/lib/elsewhere")
	must(os.Symlink("/usr/lib/elsewhere.so", "stage/usr/lib/elsewhere"))
	os.Remove("stage/usr/self")
	must(os.Symlink(filepath.Join(wd, "stage/usr"), "stage/usr/self"))
	huge := make([]byte, 4*1024*1024+4097)
	for i := range huge {
		huge[i] = byte(i*7 + i>>9)
	}
	must(os.WriteFile("stage/huge.bin", huge, 0o644))
	must(os.Chtimes("stage/huge.bin", t, t))
	must(os.MkdirAll("hardlinks/names", 0o755))
	for _, n := range []string{"a-first", "m-middle", "z-last"} {
		os.Remove("hardlinks/names/" + n)
	}
	must(os.WriteFile("hardlinks/names/m-middle", []byte("one inode, three names\n"), 0o644))
	must(os.Chtimes("hardlinks/names/m-middle", t, t))
	must(os.Link("hardlinks/names/m-middle", "hardlinks/names/a-first"))
	must(os.Link("hardlinks/names/m-middle", "hardlinks/names/z-last"))
	must(os.Chtimes("hardlinks/names", t, t))
	for _, d := range []string{"stage/usr/lib", "stage/usr", "stage"} {
		must(os.Chtimes(d, t, t))
	}
}

// manyFiles: a source tree with a few hundred small files, created once per run
func manyFiles() {
	must(os.MkdirAll("many/sub", 0o755))
	t := time.Unix(1600000300, 0)
	for i := 0; i < 420; i++ {
		p := fmt.Sprintf("many/f%03d.txt", i)
		if i%7 == 0 {
			p = fmt.Sprintf("many/sub/g%03d.txt", i)
		}
		must(os.WriteFile(p, []byte(fmt.Sprintf("file %d\n%s", i, strings.Repeat("x", i%97))), 0o644))
		must(os.Chtimes(p, t, t))
	}
	must(os.Chtimes("many/sub", t, t))
	must(os.Chtimes("many", t, t))
}

func cmdC07(tier string, seed int64, out, statsOut, replay string) {
	_, cleanup := pkgWorkdir()
	defer cleanup()
	w := newCaseWriter(out)
	st := &c07Stats{envs: map[string]int{}, built: map[string]int{}, distinct: map[string]struct{}{}}
	manyFiles()
	stageTree()
	if replay != "" {
		i := 0
		readDescs(replay, func(id string, raw json.RawMessage) {
			var d reproDesc
			must(json.Unmarshal(raw, &d))
			runC07Case(w, id, d, nil, i, st)
			i++
		})
		w.close()
		writeJSON(statsOut, map[string]any{"cases": st.cases})
		return
	}
	g := &pkgGen{rng: rand.New(rand.NewSource(seed))}
	n := 8
	if tier != "quick" {
		n = 80
	}
	var descs []reproDesc
	var firsts []map[string]string
	start := time.Now()
	for i := 0; i < n; i++ {
		gen := reproConfig(g, i)
		d := reproDesc{YAML: marshalConfig(&gen.cfg), Files: gen.files}
		// every fourth configuration takes its package mtime from SOURCE_DATE_EPOCH: the epoch itself, one second, a usual value
		if i%4 == 0 {
			gen.cfg.MTime = time.Time{}
			d = reproDesc{YAML: marshalConfig(&gen.cfg), Files: gen.files, SDE: []string{"0", "1700000123", "1"}[(i/4)%3]}
		}
		// every fourth states the rpm build host in the rpm block of the rpm override block (key as documented)
		if i%4 == 1 {
			var doc map[string]any
			if yaml.Unmarshal([]byte(d.YAML), &doc) == nil {
				ovs, _ := doc["overrides"].(map[string]any)
				if ovs == nil {
					ovs = map[string]any{}
				}
				ov, _ := ovs["rpm"].(map[string]any)
				if ov == nil {
					ov = map[string]any{}
				}
				blk, _ := ov["rpm"].(map[string]any)
				if blk == nil {
					blk = map[string]any{}
				}
				blk["buildhost"] = "override-host.example"
				ov["rpm"], ovs["rpm"], doc["overrides"] = blk, ov, ovs
				if b, err := yaml.Marshal(doc); err == nil {
					if _, perr := parseDoc(string(b)); perr == nil {
						d.YAML = string(b)
					}
				}
			}
		}
		descs = append(descs, d)
		// first pass: the builds every later build of this configuration is compared with
		writeExtraFiles(d.Files)
		first := map[string]string{}
		if d.SDE != "" {
			os.Setenv("SOURCE_DATE_EPOCH", d.SDE)
		}
		for _, f := range allFormats {
			_, first[f] = buildOnce(d.YAML, f)
		}
		os.Unsetenv("SOURCE_DATE_EPOCH")
		removeExtraFiles(d.Files)
		firsts = append(firsts, first)
	}
	if el := time.Since(start); el < 1200*time.Millisecond {
		time.Sleep(1200*time.Millisecond - el)
	}
	for i, d := range descs {
		runC07Case(w, fmt.Sprintf("repro-%d", i), d, firsts[i], i, st)
	}
	w.close()
	floors := map[string][]int{}
	for _, f := range allFormats {
		floors["configurations built as "+f] = []int{st.built[f], n / 2}
		floors["configurations built as "+f+" with large files first"] = []int{st.built[f+" with large files first"], 1}
		floors["configurations built as "+f+" with the mtime from SOURCE_DATE_EPOCH"] = []int{st.built[f+" with the mtime from SOURCE_DATE_EPOCH"], 1}
	}
	writeJSON(statsOut, map[string]any{"floors": floors, "cases": st.cases, "builds_compared": st.builds, "child_processes": st.procs, "child_environments": st.envs,
		"timestamps_decoded": st.stamps, "distinct": len(st.distinct), "distinct_nontrivial": len(st.distinct), "samples": st.samples})
}

// plainScalar: <block>.<key> as the document gives it to the format (overrides.<format>.<block>.<key> when that is a
// non-empty string, the top-level one otherwise), read with a plain YAML decoding
func plainScalar(yamlText, format, block, key string) (string, bool) {
	var doc map[string]any
	if yaml.Unmarshal([]byte(yamlText), &doc) != nil {
		return "", false
	}
	get := func(m map[string]any) (string, bool) {
		b, ok := m[block].(map[string]any)
		if !ok {
			return "", false
		}
		v, ok := b[key].(string)
		return v, ok && v != ""
	}
	if ovs, ok := doc["overrides"].(map[string]any); ok {
		if ov, ok := ovs[format].(map[string]any); ok {
			if v, ok := get(ov); ok {
				return v, true
			}
		}
	}
	return get(doc)
}
