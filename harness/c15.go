package main

import (
	"bytes"
	"fmt"
	"math/rand"
	"os"
	"os/exec"
	"path/filepath"
	"sort"
	"strings"

	"github.com/goreleaser/nfpm/v2"
	"github.com/goreleaser/nfpm/v2/files"
)

// buildNfpmBinary builds cmd/nfpm of the repository under test into dir
func buildNfpmBinary(dir string) (string, error) {
	repo := os.Getenv("VERIF_REPO")
	if repo == "" {
		repo = "/repo"
	}
	bin := filepath.Join(dir, "nfpm-under-test")
	cmd := exec.Command("go", "build", "-o", bin, "./cmd/nfpm")
	cmd.Dir = repo
	cmd.Env = append(os.Environ(), "GOFLAGS=-mod=mod", "GOPROXY=off", "GOSUMDB=off", "GOTOOLCHAIN=local", "CGO_ENABLED=0")
	out, err := cmd.CombinedOutput()
	if err != nil {
		return "", fmt.Errorf("go build ./cmd/nfpm: %v: %s", err, out)
	}
	return bin, nil
}

func listFiles(root string) []string {
	var out []string
	filepath.Walk(root, func(p string, info os.FileInfo, err error) error {
		if err == nil && !info.IsDir() {
			rel, _ := filepath.Rel(root, p)
			out = append(out, rel)
		}
		return nil
	})
	sort.Strings(out)
	return out
}

// magicOf: which format the file is - and that it is a whole package of that format and nothing else (a file that
// starts like a package but does not decode to its end, e.g. with bytes of an older file after it, is "damaged")
func magicOf(path string) string {
	b, err := os.ReadFile(path)
	if err != nil || len(b) < 8 {
		return "unreadable"
	}
	m := magicPrefixOf(b)
	if m == "unknown" {
		return m
	}
	o, err := decodePackage(m, b)
	if err != nil {
		return m + "-damaged"
	}
	// the command line cases configure, per format, an architecture only that format's override block states: a package
	// built from other settings than the merged ones says another architecture
	if want, ok := cliOverrideArch[m]; ok && o != nil {
		key := map[string]string{"deb": "Architecture", "ipk": "Architecture", "rpm": "Arch", "apk": "arch", "archlinux": "arch"}[m]
		for _, f := range o.Meta {
			if f.K == key && f.V != want {
				return m + "-built-from-settings-without-its-override-block(" + f.V + ")"
			}
		}
	}
	return m
}

// cliOverrideArch: set while the command line cases run
var cliOverrideArch = map[string]string{}

func magicPrefixOf(b []byte) string {
	switch {
	case bytes.HasPrefix(b, []byte("!<arch>\n")):
		return "deb"
	case bytes.HasPrefix(b, []byte{0xed, 0xab, 0xee, 0xdb}):
		return "rpm"
	case bytes.HasPrefix(b, []byte{0x28, 0xb5, 0x2f, 0xfd}):
		return "archlinux"
	case b[0] == 0x1f && b[1] == 0x8b:
		// apk: several gzip members; ipk: one gzip member holding ./debian-binary
		if ms, err := gzipMembers(b); err == nil && len(ms) >= 2 {
			return "apk"
		}
		return "ipk"
	}
	return "unknown"
}

// the command-line cases: target spellings x packager flag x format
func genCLICases(w *caseWriter, bin string, rng *rand.Rand, st *pkgStats, tier string) {
	work, err := os.MkdirTemp("", "verif-cli-")
	must(err)
	defer os.RemoveAll(work)
	materialise(work, baseTree)
	cfg := baseConfig("clipkg")
	cfg.Contents = nil
	cfg.Version = "1.2.3"
	cfg.Release = "2"
	// per-format settings that reach the conventional name only through the format's override block
	cfg.Overrides = map[string]*nfpm.Overridables{}
	for _, f := range allFormats {
		ov := &nfpm.Overridables{}
		switch f {
		case "deb":
			ov.Deb.Arch = "ovrdeb"
		case "rpm":
			ov.RPM.Arch = "ovrrpm"
		case "apk":
			ov.APK.Arch = "ovrapk"
		case "ipk":
			ov.IPK.Arch = "ovripk"
		case "archlinux":
			ov.ArchLinux.Arch = "ovrarch"
		}
		cfg.Overrides[f] = ov
	}
	cliOverrideArch = map[string]string{"deb": "ovrdeb", "rpm": "ovrrpm", "apk": "ovrapk", "ipk": "ovripk", "archlinux": "ovrarch"}
	defer func() { cliOverrideArch = map[string]string{} }()
	yamlPath := filepath.Join(work, "nfpm.yaml")
	must(os.WriteFile(yamlPath, []byte(marshalConfig(&cfg)), 0o644))
	exts := map[string]string{"deb": ".deb", "rpm": ".rpm", "apk": ".apk", "ipk": ".ipk", "archlinux": ".pkg.tar.zst"}
	n := 0
	for _, format := range allFormats {
		info, _, err := buildInfo(marshalConfig(&cfg), nil, format)
		must(err)
		p, _ := nfpm.Get(format)
		conv := p.ConventionalFileName(info)
		type tcase struct{ target, kind string }
		targets := []tcase{
			{"out/custom-name" + exts[format], "file"}, {"out/noext", "file"}, {"outdir", "dir"}, {"outdir/", "dir"}, {"", "empty"},
			{"out/other.deb", "file"}, {"out/other.rpm", "file"}, {"out/name.with.dots" + exts[format], "file"}, {"out/UPPER.DEB", "file"},
			// a dollar sign is a character like any other in a file name (the variable is not set)
			{"out/cost$VERIF_UNSET_VARIABLE" + exts[format], "file"}, {"out/${VERIF_UNSET_VARIABLE}x" + exts[format], "file"},
			// the target is a symbolic link to the file that is to be (re)written: the package goes where the link points
			{"out/latest" + exts[format], "link"},
			// existing directories whose last element has a dot in it
			{"outdir.d", "dir"}, {"out/v1.2.3", "dir"}, {".packages", "dir"},
			// a directory reached through a symbolic link is a directory
			{"linked-outdir", "dirlink"},
			// the flag given with an empty value (a variable that is not set): the same as leaving it out
			{"", "explicit-empty"},
		}
		for _, tc := range targets {
			for _, flag := range []string{format, ""} {
				n++
				run := filepath.Join(work, fmt.Sprintf("run%d", n))
				must(os.MkdirAll(filepath.Join(run, "out"), 0o755))
				must(os.MkdirAll(filepath.Join(run, "outdir"), 0o755))
				if tc.kind == "dir" {
					must(os.MkdirAll(filepath.Join(run, tc.target), 0o755))
				}
				if tc.kind == "dirlink" {
					must(os.MkdirAll(filepath.Join(run, "real-outdir"), 0o755))
					must(os.Symlink("real-outdir", filepath.Join(run, tc.target)))
				}
				// the target already exists and is longer than the package: it is replaced, not written over
				if tc.kind == "file" && flag == "" && format != "archlinux" && strings.HasSuffix(tc.target, exts[format]) {
					must(os.WriteFile(filepath.Join(run, tc.target), bytes.Repeat([]byte("bytes of an older, longer file\n"), 40000), 0o644))
				}
				pointee := ""
				if tc.kind == "link" {
					if flag == "" && format == "archlinux" {
						continue // no packager can be inferred from .zst: the command refuses, nothing to write through
					}
					pointee = filepath.Join("out", "pool", "real"+exts[format])
					must(os.MkdirAll(filepath.Join(run, "out", "pool"), 0o755))
					must(os.WriteFile(filepath.Join(run, pointee), []byte("the previous release\n"), 0o644))
					must(os.Symlink(filepath.Join("pool", "real"+exts[format]), filepath.Join(run, tc.target)))
				}
				args := []string{"package", "-f", yamlPath}
				if flag != "" {
					args = append(args, "-p", flag)
				}
				if tc.target != "" {
					args = append(args, "-t", tc.target)
				} else if tc.kind == "explicit-empty" {
					args = append(args, "-t", "")
				}
				cmd := exec.Command(bin, args...)
				cmd.Dir = run
				var outb bytes.Buffer
				cmd.Stdout, cmd.Stderr = &outb, &outb
				err := cmd.Run()
				code := 0
				if err != nil {
					code = 1
					if ee, ok := err.(*exec.ExitError); ok {
						code = ee.ExitCode()
					}
				}
				created := listFiles(run)
				w.line("cli %d %s %s %s %s %d %d", n, xs(format), xs(flag), xs(tc.target), xs(conv), b2i(tc.kind == "dir" || tc.kind == "dirlink"), code)
				for _, f := range created {
					if pointee != "" && f == pointee {
						continue // judged through the link below
					}
					if tc.kind == "dirlink" {
						// what lies in the directory the link names is what lies "in" the requested directory; the link itself stays
						if f == tc.target {
							if li, err := os.Lstat(filepath.Join(run, f)); err == nil && li.Mode()&os.ModeSymlink != 0 {
								continue
							}
						} else if strings.HasPrefix(f, "real-outdir/") {
							w.line("clifile %s %s", xs(tc.target+strings.TrimPrefix(f, "real-outdir")), xs(magicOf(filepath.Join(run, f))))
							continue
						}
					}
					magic := magicOf(filepath.Join(run, f))
					if pointee != "" && f == filepath.Clean(tc.target) {
						if li, err := os.Lstat(filepath.Join(run, f)); err != nil || li.Mode()&os.ModeSymlink == 0 {
							magic = "the-link-was-replaced-and-the-file-it-named-holds-" + magicOf(filepath.Join(run, pointee))
						}
					}
					w.line("clifile %s %s", xs(f), xs(magic))
				}
				w.line("cliout %s", xs(outb.String()))
				w.line("cliend")
				st.cases++
				writeDesc(fmt.Sprintf("cli-%d", n), map[string]string{"kind": "cli", "format": format, "packager_flag": flag, "target": tc.target})
				os.RemoveAll(run)
			}
		}
	}
	_ = strings.TrimSpace
}

func cmdC15(tier string, seed int64, out, statsOut, replay string) {
	_, cleanup := pkgWorkdir()
	defer cleanup()
	w := newCaseWriter(out)
	st := newPkgStats()
	extra := func(w *caseWriter, format string, info *nfpm.Info, raw []byte, o *pkgObs) {
		// asking for the conventional name first must not change the package built afterwards
		y := currentYAML
		i1, _, err1 := buildInfo(y, nil, format)
		i2, _, err2 := buildInfo(y, nil, format)
		p, err3 := nfpm.Get(format)
		if err1 != nil || err2 != nil || err3 != nil {
			return
		}
		name1 := p.ConventionalFileName(i1)
		var b1, b2 bytes.Buffer
		e1 := p.Package(i1, &b1)
		e2 := p.Package(i2, &b2)
		name2 := p.ConventionalFileName(i2)
		w.line("nameeffect %d %d", b2i(e1 == nil && e2 == nil && bytes.Equal(b1.Bytes(), b2.Bytes())), b2i(name1 == name2))
	}
	if replay != "" {
		replayPkgWithYAML(replay, w, st, extra)
	} else {
		for _, f := range corpusFiles("C15") {
			replayPkgWithYAML(f, w, st, extra)
		}
		g := &pkgGen{rng: rand.New(rand.NewSource(seed))}
		n := 60
		if tier != "quick" {
			n = 500
		}
		for i := 0; i < n; i++ {
			gen := g.config(i)
			gen.cfg.Contents = gen.cfg.Contents[:min(len(gen.cfg.Contents), 2)]
			d := pkgDesc{YAML: marshalConfig(&gen.cfg), Files: gen.files, Formats: rotatedFormats(g.rng)}
			currentYAML = d.YAML
			runPkgCase(w, fmt.Sprintf("g-%d", i), d, st, extra)
		}
		// forced: every combination of the identity components that take part in a file name or a Version field, for every
		// format (the draws above are not relied on for them): prereleases with and without hyphens, with and without a release
		k := 0
		for _, pre := range []string{"", "rc1", "4-gdeadbee", "beta-2"} {
			for _, rel := range []string{"", "2"} {
				for _, meta := range []string{"", "git5"} {
					for _, epoch := range []string{"", "3"} {
						c := baseConfig("ident")
						c.Version, c.VersionSchema, c.Prerelease, c.Release, c.VersionMetadata, c.Epoch = "1.2.3", "none", pre, rel, meta, epoch
						c.Contents = files.Contents{{Source: "src/f1", Destination: "/usr/bin/ident"}}
						d := pkgDesc{YAML: marshalConfig(&c), Formats: allFormats}
						currentYAML = d.YAML
						runPkgCase(w, fmt.Sprintf("ident-%d", k), d, st, extra)
						k++
					}
				}
			}
		}
		work, err := os.MkdirTemp("", "verif-bin-")
		must(err)
		defer os.RemoveAll(work)
		bin, err := buildNfpmBinary(work)
		if err != nil {
			w.line("clibuild err %s", xs(err.Error()))
		} else {
			genCLICases(w, bin, g.rng, st, tier)
		}
	}
	w.close()
	writeJSON(statsOut, statsJSON(st, nil))
}

var currentYAML string

func replayPkgWithYAML(path string, w *caseWriter, st *pkgStats, extra func(*caseWriter, string, *nfpm.Info, []byte, *pkgObs)) {
	replayPkg(path, w, st, func(w *caseWriter, format string, info *nfpm.Info, raw []byte, o *pkgObs) {})
}
