package main

// Package-level cases: a generated configuration (YAML text + extra files), the real pipeline
// Parse -> Get(format) -> WithDefaults -> Package, the decoded observation, and everything the
// Gallina models need as input (effective settings, content oracle, file hashes, script bytes).

import (
	"archive/tar"
	"bytes"
	"crypto/md5"
	"encoding/hex"
	"encoding/json"
	"errors"
	"fmt"
	"io"
	"math/rand"
	"os"
	"os/exec"
	"path/filepath"
	"sort"
	"strings"
	"time"

	"github.com/goreleaser/nfpm/v2"
	_ "github.com/goreleaser/nfpm/v2/apk"
	_ "github.com/goreleaser/nfpm/v2/arch"
	_ "github.com/goreleaser/nfpm/v2/deb"
	"github.com/goreleaser/nfpm/v2/files"
	_ "github.com/goreleaser/nfpm/v2/ipk"
	_ "github.com/goreleaser/nfpm/v2/rpm"
	"gopkg.in/yaml.v3"
)

var allFormats = []string{"deb", "rpm", "apk", "ipk", "archlinux"}

type extraFile struct {
	Path  string `json:"path"`
	Hex   string `json:"hex"`
	Mode  uint32 `json:"mode"`
	MTime int64  `json:"mtime"`
	Nanos int64  `json:"nanos,omitempty"` // sub-second part of the modification time
	Dir   bool   `json:"dir,omitempty"`   // a directory: created, and given this time after everything below it exists
	Link  string `json:"link,omitempty"`  // a symbolic link with this target
}

type pkgDesc struct {
	YAML    string      `json:"yaml"`
	Files   []extraFile `json:"files"`
	Formats []string    `json:"formats"`
	Env     map[string]string `json:"env,omitempty"`
}

const changelogYAML = `- semver: "1.3.0"
  date: "2031-05-06T07:08:09Z"
  packager: "Release Bot <bot@example.com>"
  changes:
    - note: "an entry dated after the package mtime"
- semver: "1.1.0-1"
  date: "2009-12-08T22:00:00Z"
  packager: "Carlos A Becker <pkg@carlosbecker.com>"
  deb:
    urgency: medium
    distributions: [bookworm]
  changes:
    - note: "note 1: 20% faster, 100%% sure, %{name}"
    - note: "note 2\nsecond line"
- semver: "1.0.0-1"
  date: "2009-11-10T23:00:00Z"
  packager: "Carlos A Becker <pkg@carlosbecker.com>"
  changes:
    - note: "note 3"
`

// the same with an entry that carries no date (valid for chglog; the packagers must not invent one)
const changelogYAMLUndated = `- semver: "1.2.0"
  packager: "No Date <nodate@example.com>"
  changes:
    - note: "an entry without a date"
` + changelogYAML

// ---------- generation ----------

type pkgGen struct {
	rng *rand.Rand
}

func (g *pkgGen) pick(l []string) string { return l[g.rng.Intn(len(l))] }
func (g *pkgGen) chance(n int) bool     { return g.rng.Intn(n) == 0 }

var goArches = []string{"386", "amd64", "arm64", "arm5", "arm6", "arm7", "mips64le", "mips", "mipsle", "ppc64le", "s390", "all", "riscv64", "mips64softfloat"}

func (g *pkgGen) semver() string {
	v := fmt.Sprintf("%d.%d.%d", g.rng.Intn(12), g.rng.Intn(30), g.rng.Intn(100))
	switch g.rng.Intn(8) {
	case 0:
		v = "v" + v
	case 1:
		v = fmt.Sprintf("%d.%d", g.rng.Intn(5), g.rng.Intn(50))
	case 2:
		v += "-" + g.pick([]string{"rc1", "beta.2", "alpha-3", "0.3.7", "x.7.z.92", "rc.1-hot"})
	case 3:
		v += "+" + g.pick([]string{"git.abc123", "20240101", "exp.sha.5114f85"})
	case 4:
		v += "-" + g.pick([]string{"rc1", "beta"}) + "+" + g.pick([]string{"git", "b7"})
	}
	return v
}

func (g *pkgGen) relations(n int) []string {
	pool := []string{"bash", "libc6 (>= 2.17)", "foo-bar", "NetworkManager", "Foo-Tool (>= 1.0)", "libfoo >= 1.2", "libfoo < 2.0", "baz = 1:2.3-4", "python3 (<< 4)", "a|b", " spaced ", "x.y+z"}
	var out []string
	for i := 0; i < n; i++ {
		out = append(out, g.pick(pool))
	}
	return out
}

var descPool = []string{
	"A simple package",
	"Synopsis line\nsecond line\n\nafter a blank line",
	"Ünïcödé synopsis ✓\n  indented continuation\n.\nline after a dot line",
	"  leading and trailing space  \n\ttabbed\n",
	"one\r\ntwo with CR",
	"multi\n\n\nblank blank",
	"two  blanks, a\ttab and a no-break\u00a0space in the synopsis\nthen   more   of  them",
	"synopsis\n   \nafter a line of blanks only\n\t\nafter a line holding a tab",
	"dos line ends\r\n\r\nafter a blank line that is a lone carriage return",
}

type genEntry struct {
	c     files.Content
}

// a valid-by-construction content list: distinct destinations, sources from the base tree
func (g *pkgGen) contents() files.Contents {
	var out files.Contents
	used := map[string]bool{}
	add := func(c *files.Content) {
		key := strings.TrimRight(c.Destination, "/")
		if used[key] {
			return
		}
		used[key] = true
		out = append(out, c)
	}
	fi := func() *files.ContentFileInfo {
		switch g.rng.Intn(5) {
		case 0:
			return &files.ContentFileInfo{Owner: "bob", Group: "staff", Mode: 0o4750, MTime: time.Unix(1500000000, 0).UTC()}
		case 1:
			return &files.ContentFileInfo{Mode: 0o600}
		case 2:
			return &files.ContentFileInfo{Owner: "alice", MTime: time.Unix(1400000000, 0).UTC()}
		case 3:
			return &files.ContentFileInfo{Mode: 0o1777, Group: "wheel"}
		}
		return nil
	}
	pk := func() string {
		if g.chance(4) {
			return g.pick(allFormats)
		}
		return ""
	}
	n := g.rng.Intn(7)
	for i := 0; i < n; i++ {
		d := fmt.Sprintf("/opt/app%d", i)
		switch g.rng.Intn(14) {
		case 0:
			add(&files.Content{Source: "src/f1", Destination: d + "/bin/f1", Packager: pk(), FileInfo: fi()})
		case 1:
			add(&files.Content{Source: "src/f2", Destination: "/usr/bin/tool" + fmt.Sprint(i), Type: "file", Packager: pk(), FileInfo: fi()})
		case 2:
			add(&files.Content{Source: "src/d", Destination: d + "/share", Packager: pk(), FileInfo: fi()})
		case 3:
			add(&files.Content{Source: "src/d/*", Destination: g.pick([]string{"/etc/app", "/etc/app", "/opt/conf/app", "/var/lib/cfg/app", "/usr/local/etc/app"}) + fmt.Sprint(i), Type: g.pick([]string{"config", "config|noreplace", "config|missingok"}), Packager: pk(), FileInfo: fi()})
		case 4:
			add(&files.Content{Destination: "/var/lib/app" + fmt.Sprint(i) + g.pick([]string{"", "/"}), Type: "dir", Packager: pk(), FileInfo: fi()})
		case 5:
			add(&files.Content{Source: g.pick([]string{"/usr/bin/tool", "../rel/target", "f1"}), Destination: "/usr/bin/link" + fmt.Sprint(i), Type: "symlink", Packager: pk(), FileInfo: fi()})
		case 6:
			add(&files.Content{Source: g.pick([]string{"src/d", "src/k", "src/e"}), Destination: d + "/tree", Type: "tree", Packager: pk(), FileInfo: fi()})
		case 7:
			add(&files.Content{Destination: "/var/log/app" + fmt.Sprint(i) + ".log", Type: "ghost", Packager: pk(), FileInfo: fi()})
		case 8:
			add(&files.Content{Source: "src/f1", Destination: "/usr/share/doc/app/" + g.pick([]string{"README", "LICENSE", "manual"}) + fmt.Sprint(i), Type: g.pick([]string{"doc", "licence", "license", "readme"}), Packager: pk(), FileInfo: fi()})
		case 9:
			add(&files.Content{Source: "src/g\\[1\\].txt", Destination: d + "/odd name [x].txt", Packager: pk(), FileInfo: fi()})
		case 10:
			add(&files.Content{Source: "src/big.bin", Destination: d + "/big.bin", Packager: pk(), FileInfo: fi()})
		case 11:
			add(&files.Content{Source: "src/k/conf*/*.cfg", Destination: "/etc/k" + fmt.Sprint(i), Type: "config", Packager: pk()})
		case 12:
			// an entry below a tree's destination, declared before or after the tree (implied directories
			// of the entry meet the tree's own directories)
			extra := &files.Content{Source: "src/f1", Destination: d + "/tree/sub/added.txt", FileInfo: fi()}
			tree := &files.Content{Source: "src/d", Destination: d + "/tree", Type: "tree", FileInfo: fi()}
			if g.chance(2) {
				add(extra)
				add(tree)
			} else {
				add(tree)
				add(extra)
			}
		case 13:
			// an explicit directory declared after a file that implied it
			add(&files.Content{Source: "src/f2", Destination: d + "/data/f2", FileInfo: fi()})
			add(&files.Content{Destination: d + "/data", Type: "dir", FileInfo: fi()})
		}
	}
	if g.chance(3) {
		g.rng.Shuffle(len(out), func(i, j int) { out[i], out[j] = out[j], out[i] })
	}
	return out
}

type genOut struct {
	cfg   nfpm.Config
	files []extraFile
}

func scriptBytes(rng *rand.Rand, tag string) []byte {
	switch rng.Intn(8) {
	case 6:
		// saved by an editor that writes a byte order mark: the first three bytes are EF BB BF
		return []byte("\xef\xbb\xbf#!/bin/sh\necho bom-" + tag + "\n")
	case 7:
		// one line longer than the 64 KiB default of line-oriented readers
		return []byte("#!/bin/sh\n# " + strings.Repeat(tag+" ", 70000/(len(tag)+1)) + "\necho after-long-line-" + tag + "\n")
	case 4:
		// written on another operating system: every line, the interpreter line included, ends in CR LF
		return []byte("#!/bin/sh\r\necho " + tag + "\r\nexit 0\r\n")
	case 0:
		return []byte("#!/bin/sh\necho " + tag + "\n")
	case 1:
		return []byte("echo no-trailing-newline-" + tag)
	case 2:
		b := make([]byte, 20+rng.Intn(40))
		for i := range b {
			b[i] = byte(1 + rng.Intn(254))
		}
		return append([]byte(tag+":"), b...)
	case 3:
		return []byte("#!/bin/sh\n# " + tag + "\nif true; then\n  exit 0\nfi\n}\n{\n")
	}
	return []byte("#!/bin/sh\n\n\n" + tag + " $1 \"quoted\" 'single' \\back\nprintf '100%%\\n' # %{macro} %% %s\n")
}

func (g *pkgGen) config(i int) genOut {
	var out genOut
	c := &out.cfg
	c.Name = g.pick([]string{"foo", "my-app", "lib_x+1", "a.b", "app" + fmt.Sprint(i), "MyApp", "Lib-X11.Tool"})
	c.Arch = g.pick(goArches)
	if g.chance(12) {
		c.Platform = g.pick([]string{"darwin", "freebsd"})
	}
	c.Version = g.semver()
	c.Epoch = g.pick([]string{"", "", "0", "2", "17"})
	c.Release = g.pick([]string{"", "", "1", "2", "3.el9", "0", "01", "007", "+2", "-3"})
	if g.chance(3) {
		c.Prerelease = g.pick([]string{"beta1", "rc.1", "alpha-2"})
	}
	if g.chance(3) {
		c.VersionMetadata = g.pick([]string{"git.abc", "20240101", "p3"})
	}
	if g.chance(8) {
		c.VersionSchema = "none"
		c.Version = g.pick([]string{"2024.01.02", "1.0", "v7", "1.2.3.4", "1.0.0-rc1"})
	}
	if g.chance(5) {
		// a format-specific architecture is written verbatim - also when it reads like a GOARCH the tables know
		c.RPM.Arch, c.IPK.Arch, c.Deb.Arch, c.APK.Arch, c.ArchLinux.Arch = g.pick([]string{"amd64", "all", "arm6"}), g.pick([]string{"amd64", "386"}), g.pick([]string{"arm7", "all"}), g.pick([]string{"arm64", "amd64"}), g.pick([]string{"amd64", "arm5", "all"})
	}
	c.Section = g.pick([]string{"", "default", "utils"})
	c.Priority = g.pick([]string{"", "extra", "optional"})
	c.Maintainer = g.pick([]string{"", "Foo Bar <foo@example.com>", "someone@example.org"})
	c.Description = g.pick(descPool)
	if g.chance(6) {
		c.Description = ""
	}
	if g.chance(40) {
		c.Description = "synopsis before a very long line\n" + strings.Repeat("x", 70000) + "\nline after it"
	}
	c.Vendor = g.pick([]string{"", "MyCorp", "Ünï Corp"})
	c.Homepage = g.pick([]string{"", "https://example.com"})
	c.License = g.pick([]string{"", "MIT", "Apache-2.0 OR MIT"})
	c.MTime = time.Unix(1700000000+int64(g.rng.Intn(1000)), 0).UTC()
	c.Umask = []os.FileMode{0, 0o002, 0o022, 0o077}[g.rng.Intn(4)]
	c.Depends = g.relations(g.rng.Intn(4))
	c.Provides = g.relations(g.rng.Intn(3))
	if g.chance(3) {
		// a package may provide its own name, with or without a version: an entry like any other
		c.Provides = append(c.Provides, c.Name, c.Name+" = 0.9")
	}
	c.Replaces = g.relations(g.rng.Intn(3))
	c.Recommends = g.relations(g.rng.Intn(3))
	c.Suggests = g.relations(g.rng.Intn(3))
	c.Conflicts = g.relations(g.rng.Intn(3))
	c.Contents = g.contents()
	// scripts: random subset of every slot, pairwise distinct bytes
	slot := func(name string) string {
		if g.chance(2) {
			return ""
		}
		p := "scripts/" + name
		out.files = append(out.files, extraFile{Path: p, Hex: hex.EncodeToString(scriptBytes(g.rng, name)), Mode: 0o755, MTime: 1650000000 + int64(len(out.files))})
		return p
	}
	c.Scripts.PreInstall, c.Scripts.PostInstall = slot("preinstall"), slot("postinstall")
	c.Scripts.PreRemove, c.Scripts.PostRemove = slot("preremove"), slot("postremove")
	c.RPM.Scripts.PreTrans, c.RPM.Scripts.PostTrans, c.RPM.Scripts.Verify = slot("pretrans"), slot("posttrans"), slot("verify")
	c.APK.Scripts.PreUpgrade, c.APK.Scripts.PostUpgrade = slot("apk-preupgrade"), slot("apk-postupgrade")
	c.ArchLinux.Scripts.PreUpgrade, c.ArchLinux.Scripts.PostUpgrade = slot("arch-preupgrade"), slot("arch-postupgrade")
	c.Deb.Scripts.Rules, c.Deb.Scripts.Templates, c.Deb.Scripts.Config = slot("rules"), slot("templates"), slot("config")
	// format specific
	c.Deb.Compression = g.pick([]string{"", "gzip", "xz", "zstd", "none"})
	c.Deb.Predepends = g.relations(g.rng.Intn(2))
	c.Deb.Breaks = g.relations(g.rng.Intn(2))
	if g.chance(3) {
		c.Deb.Triggers.Interest = []string{"trig-a", "trig-b"}
		c.Deb.Triggers.ActivateNoAwait = []string{"trig-c"}
		if g.chance(2) {
			// the same name under more than one directive
			c.Deb.Triggers.ActivateNoAwait = []string{"trig-c", "trig-a"}
			c.Deb.Triggers.InterestNoAwait = []string{"trig-b", "/usr/share/trig"}
		}
	}
	if g.chance(3) {
		c.Deb.Fields = map[string]string{"Bugs": "https://example.com/bugs", "Built-Using": "go", "Empty": ""}
		if g.chance(2) {
			// names other formats know as fields of their own are ordinary custom fields in a deb
			for _, k := range []string{"Essential", "Vendor", "Tags", "Status", "Auto-Installed", "Source"} {
				if g.chance(2) {
					c.Deb.Fields[k] = "custom " + strings.ToLower(k)
				}
			}
		}
	}
	if g.chance(6) {
		c.Deb.Arch = "custom-deb-arch"
	}
	c.RPM.Compression = g.pick([]string{"", "gzip", "gzip:9", "xz", "lzma", "zstd", "zstd:3"})
	c.RPM.Group = g.pick([]string{"", "Unspecified"})
	c.RPM.Summary = g.pick([]string{"", "explicit summary"})
	c.RPM.Packager = g.pick([]string{"", "RPM Packager <rpm@example.com>"})
	c.RPM.BuildHost = g.pick([]string{"buildhost.example", "builder-2.example.org", "h"})
	if g.chance(4) {
		c.RPM.Prefixes = []string{"/opt", "/usr/local"}
	}
	if g.chance(6) {
		c.RPM.Arch = "custom_rpm_arch"
	}
	if g.chance(6) {
		c.APK.Arch = "customapk"
	}
	c.ArchLinux.Pkgbase = g.pick([]string{"", "basepkg"})
	c.ArchLinux.Packager = g.pick([]string{"", "Arch Packager <arch@example.com>"})
	if g.chance(6) {
		c.ArchLinux.Arch = "customarch"
	}
	c.IPK.ABIVersion = g.pick([]string{"", "7"})
	if g.chance(3) {
		c.IPK.Alternatives = []nfpm.IPKAlternative{{Priority: 100, Target: "/usr/bin/tool", LinkName: "/usr/bin/t"}, {Priority: 5, Target: "/a", LinkName: "/b"}}
	}
	c.IPK.AutoInstalled, c.IPK.Essential = g.chance(4), g.chance(4)
	c.IPK.Predepends = g.relations(g.rng.Intn(2))
	if g.chance(3) {
		c.IPK.Tags = []string{"tag1", "tag two"}
	}
	if g.chance(3) {
		c.IPK.Fields = map[string]string{"Source": "https://example.com/src", "maintainer": "stripped", "X-Custom": "v"}
	}
	if g.chance(6) {
		c.IPK.Arch = "customipk"
	}
	if g.chance(5) {
		c.Changelog = "changelog.yaml"
		body := changelogYAML
		if g.chance(3) {
			body = changelogYAMLUndated
		}
		out.files = append(out.files, extraFile{Path: "changelog.yaml", Hex: hex.EncodeToString([]byte(body)), Mode: 0o644, MTime: 1650000100})
	}
	return out
}

// ---------- running ----------

type limitedWriter struct{ buf bytes.Buffer }

func (w *limitedWriter) Write(p []byte) (int, error) { return w.buf.Write(p) }

func writeExtraFiles(fs []extraFile) {
	defer func() {
		for _, f := range fs {
			if f.Dir {
				must(os.MkdirAll(f.Path, 0o755))
				must(os.Chtimes(f.Path, time.Unix(f.MTime, f.Nanos), time.Unix(f.MTime, f.Nanos)))
			}
		}
	}()
	for _, f := range fs {
		if f.Dir {
			continue
		}
		if f.Link != "" {
			must(os.MkdirAll(filepath.Dir(f.Path), 0o755))
			os.Remove(f.Path)
			must(os.Symlink(f.Link, f.Path))
			continue
		}
		b, _ := hex.DecodeString(f.Hex)
		must(os.MkdirAll(filepath.Dir(f.Path), 0o755))
		must(os.WriteFile(f.Path, b, 0o644))
		must(os.Chmod(f.Path, os.FileMode(f.Mode)))
		t := time.Unix(f.MTime, f.Nanos)
		must(os.Chtimes(f.Path, t, t))
	}
	// directories made on the way get a fixed time too (a tree entry packages them): the newest file's, to the second
	dirs := map[string]int64{}
	for _, f := range fs {
		for d := filepath.Dir(f.Path); d != "." && d != "/" && d != "src" && d != "scripts"; d = filepath.Dir(d) {
			if f.MTime > dirs[d] {
				dirs[d] = f.MTime
			}
		}
	}
	for d, t := range dirs {
		must(os.Chtimes(d, time.Unix(t, 0), time.Unix(t, 0)))
	}
}

func removeExtraFiles(fs []extraFile) {
	for _, f := range fs {
		if !f.Dir {
			os.Remove(f.Path)
		}
	}
	for i := len(fs) - 1; i >= 0; i-- {
		if fs[i].Dir {
			os.Remove(fs[i].Path)
		}
	}
}

// buildInfo: the exact steps of the command line: ParseWithEnvMapping -> Get -> WithDefaults
func buildInfo(yamlText string, env map[string]string, format string) (*nfpm.Info, *nfpm.Config, error) {
	cfg, err := nfpm.ParseWithEnvMapping(strings.NewReader(yamlText), func(k string) string { return env[k] })
	if err != nil {
		return nil, nil, err
	}
	info, err := cfg.Get(format)
	if err != nil {
		return nil, &cfg, err
	}
	return nfpm.WithDefaults(info), &cfg, nil
}

// packageShared packages one format from an already parsed configuration, the way a caller that builds
// several formats from one nfpm.yaml does (GoReleaser, a script looping over `-p`): Get -> WithDefaults -> Package
func packageShared(cfg *nfpm.Config, format string) ([]byte, error) {
	info, err := cfg.Get(format)
	if err != nil {
		return nil, fmt.Errorf("parse: %w", err)
	}
	info = nfpm.WithDefaults(info)
	p, err := nfpm.Get(format)
	if err != nil {
		return nil, err
	}
	var w limitedWriter
	if err := p.Package(info, &w); err != nil {
		return nil, err
	}
	return w.buf.Bytes(), nil
}

func classifyPkgErr(err error) string {
	if err == nil {
		return "ok"
	}
	var se *nfpm.ErrSigningFailure
	switch {
	case errors.As(err, &se):
		return "signing"
	case errors.Is(err, files.ErrContentCollision):
		return "collision"
	case errors.Is(err, os.ErrNotExist):
		return "notexist"
	case strings.Contains(err.Error(), "invalid platform"):
		return "platform"
	case strings.Contains(err.Error(), "package names may only contain"):
		return "pkgname"
	case strings.HasPrefix(err.Error(), "parse:"):
		return "parse"
	}
	return "other"
}

// ---------- emission ----------

func emitInfo(w *caseWriter, info *nfpm.Info) {
	s := func(k, v string) { w.line("info %s %s", xs(k), xs(v)) }
	l := func(k string, v []string) {
		for _, x := range v {
			w.line("list %s %s", xs(k), xs(x))
		}
	}
	s("name", info.Name); s("arch", info.Arch); s("platform", info.Platform); s("epoch", info.Epoch)
	s("version", info.Version); s("release", info.Release); s("prerelease", info.Prerelease)
	s("version_metadata", info.VersionMetadata); s("section", info.Section); s("priority", info.Priority)
	s("maintainer", info.Maintainer); s("description", info.Description); s("vendor", info.Vendor)
	s("homepage", info.Homepage); s("license", info.License); s("changelog", info.Changelog)
	w.line("num %s %d", xs("mtime"), info.MTime.Unix())
	w.line("num %s %d", xs("umask"), uint32(info.Umask))
	// the changelog file's entries, read here with plain YAML decoding (not with the library the packagers use)
	if info.Changelog != "" {
		if b, err := os.ReadFile(info.Changelog); err == nil {
			var es []struct {
				Semver   string `yaml:"semver"`
				Date     string `yaml:"date"`
				Packager string `yaml:"packager"`
				Changes  []struct {
					Note string `yaml:"note"`
				} `yaml:"changes"`
			}
			if yaml.Unmarshal(b, &es) == nil {
				var titles, times, notes []string
				for _, e := range es {
					titles = append(titles, e.Packager+" - "+e.Semver)
					tm := ""
					if t, err := time.Parse(time.RFC3339, e.Date); err == nil {
						tm = fmt.Sprint(t.Unix())
					}
					times = append(times, tm)
					n := ""
					if len(e.Changes) > 0 {
						n = strings.SplitN(e.Changes[0].Note, "\n", 2)[0]
					}
					notes = append(notes, n)
				}
				l("changelog.titles", titles); l("changelog.times", times); l("changelog.first_notes", notes)
			}
		}
	}
	l("depends", info.Depends); l("provides", info.Provides); l("replaces", info.Replaces)
	l("recommends", info.Recommends); l("suggests", info.Suggests); l("conflicts", info.Conflicts)
	s("deb.arch", info.Deb.Arch); s("deb.compression", info.Deb.Compression)
	l("deb.predepends", info.Deb.Predepends); l("deb.breaks", info.Deb.Breaks)
	l("deb.triggers.interest", info.Deb.Triggers.Interest); l("deb.triggers.interest_await", info.Deb.Triggers.InterestAwait)
	l("deb.triggers.interest_noawait", info.Deb.Triggers.InterestNoAwait); l("deb.triggers.activate", info.Deb.Triggers.Activate)
	l("deb.triggers.activate_await", info.Deb.Triggers.ActivateAwait); l("deb.triggers.activate_noawait", info.Deb.Triggers.ActivateNoAwait)
	fields := func(k string, m map[string]string) {
		var ks []string
		for x := range m {
			ks = append(ks, x)
		}
		sort.Strings(ks)
		for _, x := range ks {
			w.line("field %s %s %s", xs(k), xs(x), xs(m[x]))
		}
	}
	fields("deb.fields", info.Deb.Fields)
	s("rpm.arch", info.RPM.Arch); s("rpm.compression", info.RPM.Compression); s("rpm.group", info.RPM.Group)
	s("rpm.summary", info.RPM.Summary); s("rpm.packager", info.RPM.Packager); s("rpm.buildhost", info.RPM.BuildHost)
	l("rpm.prefixes", info.RPM.Prefixes)
	s("apk.arch", info.APK.Arch)
	s("archlinux.arch", info.ArchLinux.Arch); s("archlinux.pkgbase", info.ArchLinux.Pkgbase); s("archlinux.packager", info.ArchLinux.Packager)
	s("ipk.arch", info.IPK.Arch); s("ipk.abi_version", info.IPK.ABIVersion)
	w.line("num %s %d", xs("ipk.auto_installed"), b2i(info.IPK.AutoInstalled))
	w.line("num %s %d", xs("ipk.essential"), b2i(info.IPK.Essential))
	l("ipk.predepends", info.IPK.Predepends); l("ipk.tags", info.IPK.Tags)
	for _, a := range info.IPK.Alternatives {
		w.line("list %s %s", xs("ipk.alternatives"), xs(fmt.Sprintf("%d:%s:%s", a.Priority, a.LinkName, a.Target)))
	}
	fields("ipk.fields", info.IPK.Fields)
	// scripts: generic slot name -> configured path and the bytes on disk
	sc := func(slot, path string) {
		if path == "" {
			return
		}
		b, err := os.ReadFile(path)
		if err != nil {
			w.line("script %s %s 0 x", xs(slot), xs(path))
			return
		}
		w.line("script %s %s 1 %s", xs(slot), xs(path), xs(string(b)))
	}
	sc("preinstall", info.Scripts.PreInstall); sc("postinstall", info.Scripts.PostInstall)
	sc("preremove", info.Scripts.PreRemove); sc("postremove", info.Scripts.PostRemove)
	sc("rpm.pretrans", info.RPM.Scripts.PreTrans); sc("rpm.posttrans", info.RPM.Scripts.PostTrans); sc("rpm.verify", info.RPM.Scripts.Verify)
	sc("apk.preupgrade", info.APK.Scripts.PreUpgrade); sc("apk.postupgrade", info.APK.Scripts.PostUpgrade)
	sc("archlinux.preupgrade", info.ArchLinux.Scripts.PreUpgrade); sc("archlinux.postupgrade", info.ArchLinux.Scripts.PostUpgrade)
	sc("deb.rules", info.Deb.Scripts.Rules); sc("deb.templates", info.Deb.Scripts.Templates); sc("deb.config", info.Deb.Scripts.Config)
}

func emitObs(w *caseWriter, o *pkgObs) {
	for _, m := range o.Members {
		w.line("member %s %d %d", xs(m.Name), m.Size, m.MTime)
	}
	pe := func(tag string, e pEntry) {
		w.line("%s %s %s %d %s %s %d %d %s %s %s %d %d %s %s", tag, xs(e.Path), xs(e.Kind), e.Mode, xs(e.Uname), xs(e.Gname), e.MTime, e.Size,
			xs(e.SHA256), xs(e.Link), xs(e.PaxSHA1), e.Flags, b2i(e.InPayload), xs(e.Format), xs(e.MD5))
	}
	for _, e := range o.Payload {
		pe("pent", e)
	}
	for _, e := range o.Control {
		pe("cent", e)
	}
	for _, f := range o.Meta {
		w.line("meta %s %s", xs(f.K), xs(f.V))
	}
	w.line("hasconffiles %d", b2i(o.HasConffiles))
	for _, c := range o.Conffiles {
		w.line("conffile %s", xs(c))
	}
	var names []string
	for n := range o.Scripts {
		names = append(names, n)
	}
	sort.Strings(names)
	for _, n := range names {
		w.line("oscript %s %s %d", xs(n), xs(string(o.Scripts[n])), o.ScriptModes[n])
	}
	for _, d := range o.Digests {
		w.line("digest %s %s %s", xs(d.Name), xs(d.Stored), xs(d.Recomputed))
	}
	for _, s := range o.Sizes {
		w.line("size %s %d %d", xs(s.Name), s.Stored, s.Recomputed)
	}
	for _, s := range o.Stamps {
		w.line("stamp %s %d", xs(s.Where), s.Value)
	}
	var flags []string
	for k := range o.Struct {
		flags = append(flags, k)
	}
	sort.Strings(flags)
	for _, k := range flags {
		w.line("struct %s %d", xs(k), b2i(o.Struct[k]))
	}
	for _, m := range o.Md5sums {
		w.line("md5sum %s %s", xs(m.K), xs(m.V))
	}
	for _, l := range o.Mtree {
		w.line("mtree %s %s %s %s %s", xs(l.Path), xs(l.KV["type"]), xs(l.KV["mode"]), xs(l.KV["time"]), xs(l.KV["link"]))
	}
	// C03: the archlinux .MTREE byte for byte (up to 256 KiB), for the mtree model's reader and writer
	if b, ok := o.Raw["mtree"]; ok && emitMtree && len(b) <= 262144 {
		w.line("mtreeraw %s", xs(string(b)))
	}
	// C03 / C08: the md5sums and conffiles control members byte for byte, for the line-list models
	if emitLists {
		for _, k := range []string{"md5sums", "conffiles"} {
			if b, ok := o.Raw[k]; ok && len(b) <= 262144 {
				w.line("rawlist %s %s", k, xs(string(b)))
			}
		}
	}
	if o.Triggers != "" {
		w.line("triggers %s", xs(o.Triggers))
	}
	if b, ok := o.Raw["install"]; ok {
		w.line("install %s", xs(string(b)))
	}
	if b, ok := o.Raw["control"]; ok {
		w.line("rawmeta %s", xs(string(b)))
	}
	if b, ok := o.Raw["pkginfo"]; ok {
		w.line("rawmeta %s", xs(string(b)))
	}
	for _, n := range o.Notes {
		w.line("note %s", xs(n))
	}
	// C04: the rpm payload archive byte for byte (up to 64 KiB), for the container model's reader and writer
	if b, ok := o.Raw["cpio"]; ok && emitCpio && len(b) <= 65536 {
		w.line("cpio %s", xs(string(b)))
		for _, e := range o.cpioEntries {
			w.line("cpioent %s %d %d %x", xs(e.Name), e.Mode, e.Size, md5.Sum(e.Data))
		}
	}
	// C04: every tar stream of the package (up to 48 KiB each), for the tar container model
	if emitCpio {
		for _, t := range o.Tars {
			if len(t.B) > 49152 {
				continue
			}
			w.line("tar %s %d %s", xs(t.Name), b2i(t.Full), xs(string(t.B)))
			flags, sizes := rawTarMembers(t.B)
			for i := range flags {
				w.line("tarent %s %d %d", xs(t.Name), flags[i], sizes[i])
			}
			// the members as archive/tar's READER hands them out, for the model's own reader of header fields, PAX records
			// and GNU long names
			tr := tar.NewReader(bytes.NewReader(t.B))
			for {
				h, err := tr.Next()
				if err != nil {
					if err != io.EOF {
						w.line("tarlogerr %s %s", xs(t.Name), xs(err.Error()))
					}
					break
				}
				data, _ := io.ReadAll(tr)
				w.line("tarlog %s %s %d %d %d %d %d %s %s %s %d %x", xs(t.Name), xs(h.Name), h.Typeflag, h.Mode, h.Uid, h.Gid, h.ModTime.Unix(),
					xs(h.Linkname), xs(h.Uname), xs(h.Gname), len(data), md5.Sum(data))
			}
		}
	}
}

// dpkgDebAccepts: the reference reader's verdict on a .deb (C04 names it): dpkg-deb must list the control information and
// unpack the file system archive to its end. Skipped (and counted) where dpkg-deb is not installed.
var dpkgDebRuns, dpkgDebMissing int

func dpkgDebAccepts(o *pkgObs, raw []byte) {
	exe, err := exec.LookPath("dpkg-deb")
	if err != nil {
		dpkgDebMissing++
		return
	}
	f, err := os.CreateTemp("", "c04-*.deb")
	if err != nil {
		return
	}
	defer os.Remove(f.Name())
	f.Write(raw)
	f.Close()
	dpkgDebRuns++
	info := exec.Command(exe, "--info", f.Name())
	info.Env = append(os.Environ(), "LC_ALL=C")
	out1, err1 := info.CombinedOutput()
	fsys := exec.Command(exe, "--fsys-tarfile", f.Name())
	fsys.Env = append(os.Environ(), "LC_ALL=C")
	var errb bytes.Buffer
	fsys.Stderr = &errb
	fsys.Stdout = io.Discard
	err2 := fsys.Run()
	o.Struct["dpkg_deb_reads_control_information"] = err1 == nil
	o.Struct["dpkg_deb_unpacks_file_system_archive"] = err2 == nil
	if err1 != nil {
		o.Notes = append(o.Notes, "dpkg-deb --info: "+strings.TrimSpace(string(out1)))
	}
	if err2 != nil {
		o.Notes = append(o.Notes, "dpkg-deb --fsys-tarfile: "+strings.TrimSpace(errb.String()))
	}
}

// emitMtree: set for C03 runs only; emitLists: C03 and C08
var emitMtree, emitLists bool

// emitCpio: set for C04 runs only (the other properties sharing this emitter do not need the bytes)
var emitCpio bool

type pkgStats struct {
	cases      int
	distinct   map[string]struct{}
	nontrivial int
	formats    map[string]int
	classes    map[string]int
	entryTypes map[string]int
	compress   map[string]int
	decodeErrs int
	samples    []string
}

func newPkgStats() *pkgStats {
	return &pkgStats{distinct: map[string]struct{}{}, formats: map[string]int{}, classes: map[string]int{}, entryTypes: map[string]int{}, compress: map[string]int{}}
}

func sha256File(p string) (string, int64, bool) {
	b, err := os.ReadFile(p)
	if err != nil {
		return "", 0, false
	}
	return hexsum(sha256b, b), int64(len(b)), true
}

// runPkgCase packages the descriptor for every requested format and writes one case per format
func runPkgCase(w *caseWriter, id string, d pkgDesc, st *pkgStats, extra func(w *caseWriter, format string, info *nfpm.Info, raw []byte, o *pkgObs)) {
	writeDesc(id, d)
	writeExtraFiles(d.Files)
	defer removeExtraFiles(d.Files)
	// one parsed configuration serves all formats of the case, in the order given by the descriptor
	shared, sharedErr := nfpm.ParseWithEnvMapping(strings.NewReader(d.YAML), func(k string) string { return d.Env[k] })
	for _, format := range d.Formats {
		cid := id + "/" + format
		w.line("pcase %s %s", cid, xs(format))
		// inputs as the packager will see them (fresh parse; Package mutates its Info)
		info, docCfg, perr := buildInfo(d.YAML, d.Env, format)
		if perr != nil {
			w.line("impl err parse")
			w.line("note %s", xs(perr.Error()))
			w.line("end")
			st.cases++
			st.classes["parse"]++
			continue
		}
		// the pre-dependencies the DOCUMENT states for this format (its override block's when that names any, the
		// format's own block otherwise), read with a plain decoding; values that hold no variable reference only
		if l, ok := plainList(d.YAML, format, "deb", "predepends"); ok {
			info.Deb.Predepends = l
		}
		if l, ok := plainList(d.YAML, format, "ipk", "predepends"); ok {
			info.IPK.Predepends = l
		}
		// the upgrade slots of apk and archlinux hold what the DOCUMENT names for them (plain decoding: the format's block in
		// its override block, the top-level block otherwise) - a slot nobody names stays empty
		for _, u := range []struct {
			blk, key string
			p        *string
		}{{"apk", "preupgrade", &info.APK.Scripts.PreUpgrade}, {"apk", "postupgrade", &info.APK.Scripts.PostUpgrade},
			{"archlinux", "preupgrade", &info.ArchLinux.Scripts.PreUpgrade}, {"archlinux", "postupgrade", &info.ArchLinux.Scripts.PostUpgrade}} {
			if v, named, ok := plainScript(d.YAML, format, u.blk, u.key); ok && !strings.Contains(v, "$") {
				if !named {
					*u.p = ""
				}
			}
		}
		emitInfo(w, info)
		// the version-related values as written in the document, before WithDefaults splits them
		var rawCfg nfpm.Config
		if yaml.Unmarshal([]byte(d.YAML), &rawCfg) == nil {
			if len(d.Env) > 0 {
				// the document's values after the documented substitution (the standard library's, not the parser's)
				m := func(k string) string { return d.Env[k] }
				rawCfg.Version, rawCfg.Prerelease = os.Expand(rawCfg.Version, m), os.Expand(rawCfg.Prerelease, m)
			}
			w.line("raw %s %s", xs("version"), xs(rawCfg.Version))
			w.line("raw %s %s", xs("prerelease"), xs(rawCfg.Prerelease))
			w.line("raw %s %s", xs("version_metadata"), xs(rawCfg.VersionMetadata))
			w.line("raw %s %s", xs("version_schema"), xs(rawCfg.VersionSchema))
		}
		// content oracle for the packager's PrepareForPackager call
		ss := statSet{}
		// the entries the DOCUMENT declares for this format (its override block's list when that names any, the common list
		// otherwise; which of them are addressed to the format is the planning model's business) - not what the
		// implementation's own selection left of them
		contents := info.Contents
		if docCfg != nil {
			contents = docCfg.Contents
			if ov := docCfg.Overrides[format]; ov != nil && len(ov.Contents) > 0 {
				contents = ov.Contents
			}
		}
		// a mode in a document is the integer YAML says it is (0644, 0o644 and 420 are one number): taken from a plain
		// decoding of the document, not from the configuration type's own decoder
		if pm := plainModes(d.YAML, format); len(pm) == len(contents) {
			cp := make(files.Contents, len(contents))
			for i, e := range contents {
				cp[i] = e
				if pm[i] != nil && e != nil {
					c2 := *e
					fi := files.ContentFileInfo{}
					if e.FileInfo != nil {
						fi = *e.FileInfo
					}
					fi.Mode = os.FileMode(*pm[i])
					c2.FileInfo = &fi
					cp[i] = &c2
				}
			}
			contents = cp
		}
		if format == "deb" && info.Changelog != "" {
			contents = append(append(files.Contents{}, contents...), &files.Content{
				Destination: fmt.Sprintf("/usr/share/doc/%s/changelog.Debian.gz", info.Name), Type: files.TypeDebChangelog})
		}
		for _, e := range contents {
			writeContentLine(w, "entry", e)
			writeOracle(w, e, info.DisableGlobbing, ss)
			st.entryTypes[e.Type]++
		}
		var paths []string
		for p := range ss {
			paths = append(paths, p)
		}
		sort.Strings(paths)
		for _, p := range paths {
			if p == "" {
				continue
			}
			if fi, err := os.Stat(p); err == nil {
				w.line("stat %s %d %d %d", xs(p), uint32(fi.Mode()), fi.ModTime().Unix(), fi.Size())
				if fi.Mode().IsRegular() {
					if h, n, ok := sha256File(p); ok {
						w.line("fhash %s %s %d", xs(p), xs(h), n)
					}
				}
			}
		}
		var raw []byte
		err := sharedErr
		if err == nil {
			raw, err = packageShared(&shared, format)
		}
		cl := classifyPkgErr(err)
		st.classes[cl]++
		st.formats[format]++
		st.cases++
		if err != nil {
			w.line("impl err %s", cl)
			w.line("note %s", xs(err.Error()))
			w.line("end")
			continue
		}
		o, derr := decodePackage(format, raw)
		if derr != nil {
			st.decodeErrs++
			w.line("impl ok")
			w.line("decode err %s", xs(derr.Error()))
			emitObs(w, o)
			w.line("end")
			continue
		}
		w.line("impl ok")
		w.line("rawlen %d", len(raw))
		if emitCpio && format == "deb" {
			dpkgDebAccepts(o, raw)
		}
		if emitCpio && (format == "deb" || format == "rpm") && len(raw) <= 65536 {
			w.line("pkgbytes %s", xs(string(raw)))
		}
		if p, err := nfpm.Get(format); err == nil {
			fi, _, _ := buildInfo(d.YAML, d.Env, format)
			w.line("filename %s", xs(p.ConventionalFileName(fi)))
		}
		emitObs(w, o)
		if extra != nil {
			extra(w, format, info, raw, o)
		}
		w.line("end")
	}
	key := hexsum(sha256b, []byte(d.YAML))
	if _, ok := st.distinct[key]; !ok {
		st.distinct[key] = struct{}{}
		if strings.Count(d.YAML, "dst:") >= 2 {
			st.nontrivial++
		}
		if len(st.samples) < 2 {
			st.samples = append(st.samples, id+":\n"+d.YAML)
		}
	}
}

// rotatedFormats: the five formats in a seeded random order (which format is built first matters when
// one build leaks into another)
func rotatedFormats(rng *rand.Rand) []string {
	out := append([]string{}, allFormats...)
	rng.Shuffle(len(out), func(i, j int) { out[i], out[j] = out[j], out[i] })
	return out
}

func marshalConfig(c *nfpm.Config) string {
	var b bytes.Buffer
	enc := yaml.NewEncoder(&b)
	enc.SetIndent(2)
	must(enc.Encode(c))
	return b.String()
}

func pkgWorkdir() (string, func()) {
	work, err := os.MkdirTemp("", "verif-pkg-")
	must(err)
	materialise(work, baseTree)
	// one file larger than the compressors' block size
	big := make([]byte, 300*1024)
	r := rand.New(rand.NewSource(7))
	for i := range big {
		big[i] = byte(r.Intn(7) * 37)
	}
	must(os.WriteFile(filepath.Join(work, "src/big.bin"), big, 0o644))
	t := time.Unix(1600000050, 0)
	must(os.Chtimes(filepath.Join(work, "src/big.bin"), t, t))
	big2 := make([]byte, 9*1024*1024/4)
	for i := range big2 {
		big2[i] = byte(r.Intn(251))
	}
	must(os.WriteFile(filepath.Join(work, "src/big2.bin"), big2, 0o644))
	must(os.Chtimes(filepath.Join(work, "src/big2.bin"), t, t))
	// sources owned by somebody else than the builder (possible when the harness runs as root): owner ids of the
	// build host are not part of any package
	if os.Geteuid() == 0 {
		for _, p := range []string{"src/f2", "src/d/x", "src/d/sub", "src/k"} {
			os.Lchown(filepath.Join(work, p), 12345, 23456)
		}
	}
	must(os.Chtimes(filepath.Join(work, "src"), time.Unix(1600000000, 0), time.Unix(1600000000, 0)))
	must(os.Chdir(work))
	return work, func() { os.Chdir("/"); os.RemoveAll(work) }
}

func statsJSON(st *pkgStats, extra map[string]any) map[string]any {
	m := map[string]any{"cases": st.cases, "distinct": len(st.distinct), "distinct_nontrivial": st.nontrivial, "formats": st.formats,
		"classes": st.classes, "entry_types": st.entryTypes, "decode_errors": st.decodeErrs, "samples": st.samples}
	for k, v := range extra {
		m[k] = v
	}
	return m
}

func replayPkg(path string, w *caseWriter, st *pkgStats, extra func(*caseWriter, string, *nfpm.Info, []byte, *pkgObs)) {
	readDescs(path, func(id string, raw json.RawMessage) {
		var d pkgDesc
		must(json.Unmarshal(raw, &d))
		runPkgCase(w, id, d, st, extra)
	})
}

// cacheProbes: the same configuration packaged again after the sources changed under it - a file added to a globbed
// directory, a file rewritten in place with the same length and modification time. Whatever a build remembers of
// an earlier one in the same process must not reach the package.
func cacheProbes(w *caseWriter, st *pkgStats, prop string) {
	c := baseConfig("probe")
	c.Contents = files.Contents{
		{Source: "src/probe/*.conf", Destination: "/etc/probe/", Type: "config"},
		{Source: "src/probe/target.txt", Destination: "/usr/share/probe/target.txt"},
		{Source: "src/probe", Destination: "/opt/probe/tree", Type: "tree"},
	}
	for _, s := range slotSetters["common"] {
		s.set(&c, "src/probe/script.sh")
	}
	doc := marshalConfig(&c)
	// sub-second parts only where the package's own consistency is judged (the payload model works in whole seconds)
	var frac int64
	if prop == "C03" || prop == "C04" {
		frac = 100000000
	}
	mk := func(target, script string, confs ...string) []extraFile {
		fs := []extraFile{
			{Path: "src/probe/target.txt", Hex: hex.EncodeToString([]byte(target)), Mode: 0o644, MTime: 1650000500, Nanos: 7 * frac},
			{Path: "src/probe/sub/early.txt", Hex: hex.EncodeToString([]byte("x")), Mode: 0o644, MTime: 1650000400, Nanos: 2 * frac},
			{Path: "src/probe/script.sh", Hex: hex.EncodeToString([]byte(script)), Mode: 0o755, MTime: 1650000500},
		}
		fs = append(fs, extraFile{Path: "src/probe/sub", Dir: true, MTime: 1650000450, Nanos: 6 * frac})
		for _, n := range confs {
			fs = append(fs, extraFile{Path: "src/probe/" + n, Hex: hex.EncodeToString([]byte("conf " + n + "\n")), Mode: 0o644, MTime: 1650000500})
		}
		return fs
	}
	runPkgCase(w, "probe-1", pkgDesc{YAML: doc, Files: mk("target=amd64\n", "#!/bin/sh\necho one\n", "10.conf"), Formats: allFormats}, st, nil)
	runPkgCase(w, "probe-2", pkgDesc{YAML: doc, Files: mk("target=arm64\n", "#!/bin/sh\necho two\n", "10.conf", "20.conf"), Formats: allFormats}, st, nil)
	runPkgCase(w, "probe-3", pkgDesc{YAML: doc, Files: mk("target=riscv\n", "#!/bin/sh\necho 3!!\n", "20.conf"), Formats: allFormats}, st, nil)
	// a build that fails half way through the payload (a source that is longer when read than when stat'ed: the
	// archive writers refuse the surplus), and an ordinary build after it in the same process: what the failed one
	// left behind in pools, buffers or hashers must not reach the next package
	cf := baseConfig("probefail")
	cf.Contents = files.Contents{
		{Source: "src/probe/target.txt", Destination: "/usr/share/probefail/a.txt"},
		{Source: "/proc/version", Destination: "/usr/share/probefail/grows-while-read.txt"},
		{Source: "src/probe/target.txt", Destination: "/usr/share/probefail/z.txt"},
	}
	for _, s := range slotSetters["common"] {
		s.set(&cf, "src/probe/script.sh")
	}
	// (format by format, the ordinary build straight after the failed one: pooled objects do not survive many collections)
	for _, f := range allFormats {
		runPkgCase(w, "probe-5-fails-midway-"+f, pkgDesc{YAML: marshalConfig(&cf), Files: mk("target=fail\n", "#!/bin/sh\necho failing\n", "10.conf"), Formats: []string{f}}, st, nil)
		runPkgCase(w, "probe-6-after-failure-"+f, pkgDesc{YAML: doc, Files: mk("target=after\n", "#!/bin/sh\necho after\n", "10.conf", "30.conf"), Formats: []string{f}}, st, nil)
	}
	// no package mtime: entries carry the times the file system reports, sub-second parts and all
	// (only the package's own consistency is judged there: without a package mtime generated members carry the
	// build time, which the payload model does not predict)
	if prop != "C03" && prop != "C04" {
		return
	}
	c.MTime = time.Time{}
	runPkgCase(w, "probe-4-no-mtime", pkgDesc{YAML: marshalConfig(&c), Files: mk("target=amd64\n", "#!/bin/sh\necho one\n", "10.conf"), Formats: allFormats}, st, nil)
}

// cmdPkg: the generic package-level run shared by C01 C03 C04 C08 C09
func cmdPkg(prop, tier string, seed int64, out, statsOut, replay string) {
	_, cleanup := pkgWorkdir()
	defer cleanup()
	w := newCaseWriter(out)
	st := newPkgStats()
	emitCpio = prop == "C04"
	emitMtree = prop == "C03"
	emitLists = prop == "C03" || prop == "C08"
	if replay != "" {
		replayPkg(replay, w, st, nil)
	} else {
		for _, f := range corpusFiles(prop) {
			replayPkg(f, w, st, nil)
		}
		g := &pkgGen{rng: rand.New(rand.NewSource(seed))}
		n := 60
		if tier != "quick" {
			n = 600
		}
		cacheProbes(w, st, prop)
		if prop == "C01" || prop == "C03" || prop == "C04" || prop == "C08" {
			genEdgeShapes(w, st)
		}
		switch prop {
		case "C08":
			genC08Matrix(w, st)
			n = n / 2
		case "C09":
			genC09Subsets(w, st, g.rng, true)
			n = n / 3
		case "C02":
			genC02Shapes(w, st)
			genC02EnvShapes(w, st)
		case "C03":
			genC03Shapes(w, st)
		case "C04":
			genC04Shapes(w, st)
		}
		for i := 0; i < n; i++ {
			gen := g.config(i)
			d := pkgDesc{YAML: marshalConfig(&gen.cfg), Files: gen.files, Formats: rotatedFormats(g.rng)}
			runPkgCase(w, fmt.Sprintf("g-%d", i), d, st, nil)
		}
	}
	w.close()
	writeJSON(statsOut, statsJSON(st, map[string]any{"dpkg_deb_runs": dpkgDebRuns, "dpkg_deb_not_installed": dpkgDebMissing}))
}

var _ = io.EOF

// plainModes: the file_info.mode values of the contents list the document gives this format, read with a plain YAML
// decoding into untyped values (nil where an entry states none or something that is not an integer)
func plainModes(yamlText, format string) []*int64 {
	var doc map[string]any
	if yaml.Unmarshal([]byte(yamlText), &doc) != nil {
		return nil
	}
	list, _ := doc["contents"].([]any)
	if ovs, ok := doc["overrides"].(map[string]any); ok {
		if ov, ok := ovs[format].(map[string]any); ok {
			if l, ok := ov["contents"].([]any); ok && len(l) > 0 {
				list = l
			}
		}
	}
	out := make([]*int64, len(list))
	for i, e := range list {
		m, ok := e.(map[string]any)
		if !ok {
			continue
		}
		fi, ok := m["file_info"].(map[string]any)
		if !ok {
			continue
		}
		switch v := fi["mode"].(type) {
		case int:
			x := int64(v)
			out[i] = &x
		case int64:
			out[i] = &v
		case uint64:
			x := int64(v)
			out[i] = &x
		}
	}
	return out
}

// plainList: the list at <block>.<key> as the document gives it to the format: overrides.<format>.<block>.<key> when
// that is a non-empty list, the top-level <block>.<key> otherwise. ok is false when neither is a list of plain strings.
func plainList(yamlText, format, block, key string) ([]string, bool) {
	var doc map[string]any
	if yaml.Unmarshal([]byte(yamlText), &doc) != nil {
		return nil, false
	}
	get := func(m map[string]any) ([]string, bool) {
		b, ok := m[block].(map[string]any)
		if !ok {
			return nil, false
		}
		l, ok := b[key].([]any)
		if !ok || len(l) == 0 {
			return nil, false
		}
		var out []string
		for _, x := range l {
			sx, ok := x.(string)
			if !ok || strings.Contains(sx, "$") {
				return nil, false
			}
			out = append(out, sx)
		}
		return out, true
	}
	if ovs, ok := doc["overrides"].(map[string]any); ok {
		if ov, ok := ovs[format].(map[string]any); ok {
			if l, ok := get(ov); ok {
				return l, true
			}
		}
	}
	return get(doc)
}

// plainScript: <block>.scripts.<key> as the document gives it to the format. ok: the document could be read;
// named: some block names a non-empty script for the slot.
func plainScript(yamlText, format, block, key string) (v string, named, ok bool) {
	var doc map[string]any
	if yaml.Unmarshal([]byte(yamlText), &doc) != nil {
		return "", false, false
	}
	get := func(m map[string]any) (string, bool) {
		b, ok := m[block].(map[string]any)
		if !ok {
			return "", false
		}
		sc, ok := b["scripts"].(map[string]any)
		if !ok {
			return "", false
		}
		x, ok := sc[key].(string)
		return x, ok && x != ""
	}
	if ovs, isMap := doc["overrides"].(map[string]any); isMap {
		if ov, isMap := ovs[format].(map[string]any); isMap {
			if x, has := get(ov); has {
				return x, true, true
			}
		}
	}
	x, has := get(doc)
	return x, has, true
}
