package main

import (
	"bufio"
	"encoding/json"
	"io/fs"
	"os"
	"time"

	"github.com/goreleaser/nfpm/v2/files"
)

type c05EntryDesc struct {
	Src      string `json:"src"`
	Dst      string `json:"dst"`
	Type     string `json:"type"`
	Packager string `json:"packager"`
	HasFI    bool   `json:"has_file_info"`
	Owner    string `json:"owner,omitempty"`
	Group    string `json:"group,omitempty"`
	Mode     uint32 `json:"mode,omitempty"`
	MTime    int64  `json:"mtime,omitempty"`
}

type c05Desc struct {
	Umask    uint32         `json:"umask"`
	Packager string         `json:"packager"`
	NoGlob   bool           `json:"noglob"`
	MTime    int64          `json:"mtime"`
	Entries  []c05EntryDesc `json:"entries"`
	Files    []extraFile    `json:"files,omitempty"` // written below the source tree for this case only
}

func descOfC05(cs c05Case) c05Desc {
	d := c05Desc{Umask: uint32(cs.umask), Packager: cs.packager, NoGlob: cs.noGlob, MTime: cs.mtime.Unix()}
	for _, e := range cs.entries {
		ed := c05EntryDesc{Src: e.Source, Dst: e.Destination, Type: e.Type, Packager: e.Packager}
		if e.FileInfo != nil {
			ed.HasFI = true
			ed.Owner, ed.Group, ed.Mode, ed.MTime = e.FileInfo.Owner, e.FileInfo.Group, uint32(e.FileInfo.Mode), e.FileInfo.MTime.Unix()
		}
		d.Entries = append(d.Entries, ed)
	}
	d.Files = cs.files
	return d
}

func caseOfC05(id string, d c05Desc) c05Case {
	cs := c05Case{id: id, umask: fs.FileMode(d.Umask), packager: d.Packager, noGlob: d.NoGlob, mtime: unixOrZero(d.MTime), files: d.Files}
	for _, ed := range d.Entries {
		c := &files.Content{Source: ed.Src, Destination: ed.Dst, Type: ed.Type, Packager: ed.Packager}
		if ed.HasFI {
			c.FileInfo = &files.ContentFileInfo{Owner: ed.Owner, Group: ed.Group, Mode: fs.FileMode(ed.Mode), MTime: unixOrZero(ed.MTime)}
		}
		cs.entries = append(cs.entries, c)
	}
	return cs
}

func unixOrZero(s int64) time.Time {
	if s == (time.Time{}).Unix() {
		return time.Time{}
	}
	return time.Unix(s, 0).UTC()
}

func readDescs(path string, f func(id string, raw json.RawMessage)) {
	fh, err := os.Open(path)
	must(err)
	defer fh.Close()
	sc := bufio.NewScanner(fh)
	sc.Buffer(make([]byte, 1<<20), 1<<28)
	for sc.Scan() {
		if len(sc.Bytes()) == 0 {
			continue
		}
		var rec struct {
			ID   string          `json:"id"`
			Case json.RawMessage `json:"case"`
		}
		must(json.Unmarshal(sc.Bytes(), &rec))
		f(rec.ID, rec.Case)
	}
}

func replayC05(path string, w *caseWriter, st *c05Stats) {
	readDescs(path, func(id string, raw json.RawMessage) {
		var d c05Desc
		must(json.Unmarshal(raw, &d))
		runC05Case(w, caseOfC05(id, d), st)
	})
}

func runCorpus(prop string, w *caseWriter, st *c05Stats) {
	for _, f := range corpusFiles(prop) {
		replayC05(f, w, st)
	}
}
