package main

// Translators that need the project's own types: regenerate coq/Gen/TypeTree.v (reflection on nfpm.Config),
// coq/Gen/Schema.v (the schema the freshly built binary emits, and the published one) and
// coq/Gen/DocConfig.v (the YAML reference block of www/docs/configuration.md) from the working tree.

import (
	"bytes"
	"encoding/json"
	"fmt"
	"os"
	"os/exec"
	"path/filepath"
	"reflect"
	"strings"

	"github.com/goreleaser/nfpm/v2"
	"gopkg.in/yaml.v3"
)

func coqStrLit(s string) string {
	plain := true
	for i := 0; i < len(s); i++ {
		if s[i] < 32 || s[i] > 126 || s[i] == '"' {
			plain = false
		}
	}
	if plain {
		return `(B "` + s + `")`
	}
	var parts []string
	for i := 0; i < len(s); i++ {
		parts = append(parts, fmt.Sprintf("x%02x", s[i]))
	}
	if len(parts) == 0 {
		return "[]"
	}
	return "[" + strings.Join(parts, "; ") + "]%byte"
}

func writeIfChangedGo(path, content string) {
	old, err := os.ReadFile(path)
	if err == nil && string(old) == content {
		return
	}
	must(os.MkdirAll(filepath.Dir(path), 0o755))
	must(os.WriteFile(path, []byte(content), 0o644))
}

const genHeader = "(* GENERATED from the repository's working tree on every run by harness/gen.go - do not edit *)\nFrom Coq Require Import List String.\nFrom Coq Require Import Strings.Byte.\nFrom NfpmV Require Import Lib.Bytes Model.Content Model.TypeTree.\nImport ListNotations.\n\n"

// ---- type tree ----

func tagParts(tag string) (name string, flags map[string]bool) {
	p := strings.Split(tag, ",")
	flags = map[string]bool{}
	for _, f := range p[1:] {
		flags[f] = true
	}
	return p[0], flags
}

func enumOf(tag string) []string {
	var out []string
	for _, p := range strings.Split(tag, ",") {
		if strings.HasPrefix(p, "enum=") {
			out = append(out, strings.TrimPrefix(p, "enum="))
		}
	}
	return out
}

func tyTerm(t reflect.Type, depth int) string {
	ind := strings.Repeat(" ", depth)
	switch t.Kind() {
	case reflect.Ptr:
		return "TyPtr (" + tyTerm(t.Elem(), depth) + ")"
	case reflect.Slice:
		return "TySlice (" + tyTerm(t.Elem(), depth) + ")"
	case reflect.Map:
		return "TyMap (" + tyTerm(t.Elem(), depth) + ")"
	case reflect.Struct:
		if t.String() == "time.Time" {
			return `TyScalar (B "time")`
		}
		var fs []string
		for i := 0; i < t.NumField(); i++ {
			f := t.Field(i)
			if !f.IsExported() {
				continue
			}
			y, yf := tagParts(f.Tag.Get("yaml"))
			j, jf := tagParts(f.Tag.Get("json"))
			var enums []string
			for _, e := range enumOf(f.Tag.Get("jsonschema")) {
				enums = append(enums, coqStrLit(e))
			}
			fs = append(fs, fmt.Sprintf("%s Field %s %s %s %v %v %v %v [%s]\n%s   (%s)", ind, coqStrLit(f.Name), coqStrLit(y), coqStrLit(j),
				yf["inline"], jf["inline"] || (j == "" && f.Anonymous), yf["omitempty"], y == "-",
				strings.Join(enums, "; "), ind, tyTerm(f.Type, depth+2)))
		}
		return "TyStruct [\n" + strings.Join(fs, ";\n") + "]"
	case reflect.Func:
		return `TyScalar (B "func")`
	default:
		return "TyScalar " + coqStrLit(t.Kind().String())
	}
}

func genTypeTree(out string) {
	var b strings.Builder
	b.WriteString(genHeader)
	b.WriteString("Definition config_ty : ty :=\n" + strings.ReplaceAll(strings.ReplaceAll(tyTerm(reflect.TypeOf(nfpm.Config{}), 1), "true", "true"), "false", "false") + ".\n")
	writeIfChangedGo(filepath.Join(out, "TypeTree.v"), b.String())
}

// ---- JSON -> Coq term (object member order preserved) ----

func jsonTerm(dec *json.Decoder, depth int) string {
	tok, err := dec.Token()
	must(err)
	switch v := tok.(type) {
	case json.Delim:
		switch v {
		case '{':
			var ms []string
			for dec.More() {
				k, err := dec.Token()
				must(err)
				ms = append(ms, "("+coqStrLit(k.(string))+", "+jsonTerm(dec, depth+1)+")")
			}
			dec.Token()
			return "JObj [" + strings.Join(ms, ";\n"+strings.Repeat(" ", depth)) + "]"
		case '[':
			var es []string
			for dec.More() {
				es = append(es, jsonTerm(dec, depth+1))
			}
			dec.Token()
			return "JArr [" + strings.Join(es, "; ") + "]"
		}
	case string:
		return "JStr " + coqStrLit(v)
	case json.Number:
		return "JNum " + coqStrLit(v.String())
	case bool:
		if v {
			return "JBool true"
		}
		return "JBool false"
	case nil:
		return "JNull"
	}
	return "JNull"
}

func jsonToCoq(b []byte) string {
	dec := json.NewDecoder(bytes.NewReader(b))
	dec.UseNumber()
	return jsonTerm(dec, 1)
}

func genSchema(repo, out string) {
	var b strings.Builder
	b.WriteString(genHeader)
	published, err := os.ReadFile(filepath.Join(repo, "www/docs/static/schema.json"))
	must(err)
	work, err := os.MkdirTemp("", "verif-schema-")
	must(err)
	defer os.RemoveAll(work)
	emitted := []byte("null")
	fileOut := []byte{}
	stdoutSame := false
	if bin, err := buildNfpmBinary(work); err == nil {
		if o, err := exec.Command(bin, "jsonschema").Output(); err == nil {
			emitted = o
		}
		target := filepath.Join(work, "schema.json")
		// the target already exists and is longer than what will be written (regenerating the published file)
		os.WriteFile(target, append(append([]byte{}, published...), bytes.Repeat([]byte("stale trailing bytes\n"), 40)...), 0o644)
		// ... and this second run happens in another directory, time zone and locale and with SOURCE_DATE_EPOCH set: the
		// schema is a function of the code alone, so it must come out the same as the first run's
		cmd := exec.Command(bin, "jsonschema", "-o", target)
		cmd.Dir = work
		cmd.Env = append(os.Environ(), "SOURCE_DATE_EPOCH=1700000000", "TZ=Asia/Kolkata", "LC_ALL=tr_TR.UTF-8", "HOME="+work, "NFPM_PASSPHRASE=x")
		if err := cmd.Run(); err == nil {
			fileOut, _ = os.ReadFile(target)
		}
		stdoutSame = bytes.Equal(bytes.TrimRight(emitted, "\n"), fileOut)
	}
	b.WriteString("Definition schema_emitted : json :=\n " + jsonToCoq(emitted) + ".\n\n")
	b.WriteString("Definition schema_published : json :=\n " + jsonToCoq(published) + ".\n\n")
	b.WriteString(fmt.Sprintf("(* byte-level facts established by the translator: the file `nfpm jsonschema -o` writes equals the published file; stdout equals it up to the final newline *)\nDefinition schema_file_equals_published : bool := %v.\nDefinition schema_stdout_equals_file : bool := %v.\n", bytes.Equal(fileOut, published), stdoutSame))
	writeIfChangedGo(filepath.Join(out, "Schema.v"), b.String())
}

// ---- the YAML reference block of the documentation ----

type docKey struct {
	path    []string
	comment string
	value   string
	kind    string
}

func walkDoc(n *yaml.Node, path []string, out *[]docKey) {
	switch n.Kind {
	case yaml.DocumentNode:
		for _, c := range n.Content {
			walkDoc(c, path, out)
		}
	case yaml.MappingNode:
		for i := 0; i+1 < len(n.Content); i += 2 {
			k, v := n.Content[i], n.Content[i+1]
			p := append(append([]string{}, path...), k.Value)
			kind := map[yaml.Kind]string{yaml.ScalarNode: "scalar", yaml.SequenceNode: "seq", yaml.MappingNode: "map"}[v.Kind]
			val := ""
			if v.Kind == yaml.ScalarNode {
				val = v.Value
			}
			*out = append(*out, docKey{path: p, comment: k.HeadComment, value: val, kind: kind})
			walkDoc(v, p, out)
		}
	case yaml.SequenceNode:
		for _, c := range n.Content {
			walkDoc(c, append(append([]string{}, path...), "[]"), out)
		}
	}
}

func genDocConfig(repo, out string) {
	src, err := os.ReadFile(filepath.Join(repo, "www/docs/configuration.md"))
	must(err)
	s := string(src)
	i := strings.Index(s, "```yaml\n")
	if i < 0 {
		must(fmt.Errorf("configuration.md: no yaml block"))
	}
	s = s[i+len("```yaml\n"):]
	j := strings.Index(s, "\n```")
	if j < 0 {
		must(fmt.Errorf("configuration.md: unterminated yaml block"))
	}
	block := s[:j+1]
	var root yaml.Node
	must(yaml.Unmarshal([]byte(block), &root))
	var keys []docKey
	walkDoc(&root, nil, &keys)
	var b strings.Builder
	b.WriteString(genHeader)
	b.WriteString("(* every key of the documented reference configuration: path, kind of its value, example value, whether its\n   comment promises environment expansion, and the comment itself *)\n")
	b.WriteString("Definition doc_keys : list (list str * str * str * bool * str) := [\n")
	for i, k := range keys {
		var ps []string
		for _, p := range k.path {
			ps = append(ps, coqStrLit(p))
		}
		sep := ";"
		if i == len(keys)-1 {
			sep = ""
		}
		expand := strings.Contains(k.comment, "This will expand any env var")
		b.WriteString(fmt.Sprintf("  ([%s], %s, %s, %v, %s)%s\n", strings.Join(ps, "; "), coqStrLit(k.kind), coqStrLit(k.value), expand, coqStrLit(strings.ReplaceAll(k.comment, "\n", " ")), sep))
	}
	b.WriteString("].\n\n")
	// the example document itself must be accepted by the strict parser (checked here, recorded as a fact)
	_, perr := nfpm.ParseWithEnvMapping(strings.NewReader(block), func(string) string { return "" })
	b.WriteString(fmt.Sprintf("Definition doc_example_parses : bool := %v.\n", perr == nil))
	writeIfChangedGo(filepath.Join(out, "DocConfig.v"), b.String())
}

func cmdGen(out string) {
	repo := os.Getenv("VERIF_REPO")
	if repo == "" {
		repo = "/repo"
	}
	genTypeTree(out)
	genSchema(repo, out)
	genDocConfig(repo, out)
}
