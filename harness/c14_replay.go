package main

import "encoding/json"

func replayC14(path string, w *caseWriter, st *c14Stats, emitSplit func(id, schema, v, pre, meta string)) {
	readDescs(path, func(id string, raw json.RawMessage) {
		var d map[string]string
		must(json.Unmarshal(raw, &d))
		if d["kind"] == "split" {
			emitSplit(id, d["schema"], d["version"], d["prerelease"], d["metadata"])
		}
	})
}
