package main

import (
	"path/filepath"
	"bytes"
	"strings"
	"encoding/hex"
	"os"
	"fmt"
	"math/rand"
	"time"

	"github.com/goreleaser/nfpm/v2"
	"github.com/goreleaser/nfpm/v2/files"
)

func baseConfig(name string) nfpm.Config {
	var c nfpm.Config
	c.Name, c.Arch, c.Version = name, "amd64", "1.2.3"
	c.Maintainer = "Foo Bar <foo@example.com>"
	c.Description = "matrix case"
	c.MTime = time.Unix(1700000000, 0).UTC()
	c.RPM.BuildHost = "buildhost.example"
	return c
}

var allEntryTypes = []string{"", files.TypeFile, files.TypeConfig, files.TypeConfigNoReplace, files.TypeConfigMissingOK, files.TypeDir,
	files.TypeSymlink, files.TypeTree, files.TypeRPMGhost, files.TypeRPMDoc, files.TypeRPMLicence, files.TypeRPMLicense, files.TypeRPMReadme, files.TypeImplicitDir}

// C08: every (entry type x packager tag) pair in every format, plus config globs that expand to many files
func genC08Matrix(w *caseWriter, st *pkgStats) int {
	n := 0
	tags := append([]string{""}, allFormats...)
	for _, typ := range allEntryTypes {
		for _, tag := range tags {
			c := baseConfig("matrix")
			src := "src/f1"
			switch typ {
			case files.TypeDir, files.TypeImplicitDir:
				src = ""
			case files.TypeTree:
				src = "src/d"
			case files.TypeSymlink:
				src = "/usr/bin/target"
			case files.TypeRPMGhost:
				src = ""
			}
			c.Contents = files.Contents{
				{Source: "src/f2", Destination: "/usr/bin/plain"},
				{Source: src, Destination: "/etc/matrix/entry", Type: typ, Packager: tag},
			}
			n++
			runPkgCase(w, fmt.Sprintf("m-%d", n), pkgDesc{YAML: marshalConfig(&c), Formats: rotate(allFormats, n)}, st, nil)
			// the same entry with a source that is a symbolic link on the build machine
			if src == "src/f1" {
				c.Contents[1].Source = "src/d/lnk"
				n++
				runPkgCase(w, fmt.Sprintf("m-%d-symlinked-src", n), pkgDesc{YAML: marshalConfig(&c), Formats: rotate(allFormats, n)}, st, nil)
			}
		}
	}
	for _, typ := range []string{files.TypeConfig, files.TypeConfigNoReplace, files.TypeConfigMissingOK} {
		for _, src := range []string{"src/d/*", "src/d", "src/k/**/*.cfg", "src/{f1,f2}", "src/d/lnk"} {
			for _, fi := range []*files.ContentFileInfo{nil, {Mode: 0o600, Owner: "cfg"}} {
				c := baseConfig("cfgglob")
				c.Contents = files.Contents{
					{Source: src, Destination: "/etc/app", Type: typ, FileInfo: fi},
					{Source: "src/f1", Destination: "/usr/share/app/notconfig"},
					{Destination: "/var/log/app.log", Type: files.TypeRPMGhost},
					{Destination: "/var/log/app2.log", Type: files.TypeRPMGhost, FileInfo: &files.ContentFileInfo{Mode: 0o600}},
				}
				n++
				runPkgCase(w, fmt.Sprintf("mg-%d", n), pkgDesc{YAML: marshalConfig(&c), Formats: rotate(allFormats, n)}, st, nil)
			}
		}
	}
	return n
}

type slotSetter struct {
	name string
	set  func(c *nfpm.Config, path string)
}

var slotSetters = map[string][]slotSetter{
	"common": {
		{"preinstall", func(c *nfpm.Config, p string) { c.Scripts.PreInstall = p }},
		{"postinstall", func(c *nfpm.Config, p string) { c.Scripts.PostInstall = p }},
		{"preremove", func(c *nfpm.Config, p string) { c.Scripts.PreRemove = p }},
		{"postremove", func(c *nfpm.Config, p string) { c.Scripts.PostRemove = p }},
	},
	"deb": {
		{"rules", func(c *nfpm.Config, p string) { c.Deb.Scripts.Rules = p }},
		{"templates", func(c *nfpm.Config, p string) { c.Deb.Scripts.Templates = p }},
		{"config", func(c *nfpm.Config, p string) { c.Deb.Scripts.Config = p }},
	},
	"rpm": {
		{"pretrans", func(c *nfpm.Config, p string) { c.RPM.Scripts.PreTrans = p }},
		{"posttrans", func(c *nfpm.Config, p string) { c.RPM.Scripts.PostTrans = p }},
		{"verify", func(c *nfpm.Config, p string) { c.RPM.Scripts.Verify = p }},
	},
	"apk": {
		{"apk-preupgrade", func(c *nfpm.Config, p string) { c.APK.Scripts.PreUpgrade = p }},
		{"apk-postupgrade", func(c *nfpm.Config, p string) { c.APK.Scripts.PostUpgrade = p }},
	},
	"archlinux": {
		{"arch-preupgrade", func(c *nfpm.Config, p string) { c.ArchLinux.Scripts.PreUpgrade = p }},
		{"arch-postupgrade", func(c *nfpm.Config, p string) { c.ArchLinux.Scripts.PostUpgrade = p }},
	},
	"ipk": {},
}

// C09: every subset of the slots a format has, with pairwise distinct script bytes; other formats'
// slots are populated at random so that a leak into the wrong package is visible
func genC09Subsets(w *caseWriter, st *pkgStats, rng *rand.Rand, special bool) int {
	n := 0
	for _, format := range allFormats {
		own := append(append([]slotSetter{}, slotSetters["common"]...), slotSetters[format]...)
		for mask := 0; mask < 1<<len(own); mask++ {
			c := baseConfig("scripts")
			c.Umask = []os.FileMode{0, 0o002, 0o022, 0o027, 0o077}[rng.Intn(5)]
			c.Contents = files.Contents{{Source: "src/f1", Destination: "/usr/bin/f1"}}
			var extra []extraFile
			put := func(s slotSetter, kind int) {
				p := "scripts/" + s.name
				b := scriptBytes(rng, s.name)
				switch kind {
				case 1:
					b = []byte{}
				case 2:
					b = []byte("before-nul\x00after-nul-" + s.name)
				}
				extra = append(extra, extraFile{Path: p, Hex: hex.EncodeToString(b), Mode: 0o755, MTime: 1650000000 + int64(len(extra))})
				s.set(&c, p)
			}
			for i, s := range own {
				if mask&(1<<i) != 0 {
					kind := 0
					if special && rng.Intn(12) == 0 {
						kind = 1 + rng.Intn(2)
					}
					put(s, kind)
				}
			}
			for f2, ss := range slotSetters {
				if f2 == format || f2 == "common" {
					continue
				}
				for _, s := range ss {
					if rng.Intn(3) == 0 {
						put(s, 0)
					}
				}
			}
			if mask%8 == 5 {
				// the same configuration with one script file missing, for each configured script in turn: the
				// build must fail, and must not leave anything behind that leaks into the next package built
				// in this process
				for drop := range extra {
					var kept []extraFile
					kept = append(kept, extra[:drop]...)
					kept = append(kept, extra[drop+1:]...)
					n++
					runPkgCase(w, fmt.Sprintf("s-%s-%d-missing%d", format, mask, drop), pkgDesc{YAML: marshalConfig(&c), Files: kept, Formats: []string{format}}, st, nil)
					n++
					runPkgCase(w, fmt.Sprintf("s-%s-%d-after-missing%d", format, mask, drop), pkgDesc{YAML: marshalConfig(&c), Files: extra, Formats: []string{format}}, st, nil)
				}
			}
			n++
			runPkgCase(w, fmt.Sprintf("s-%s-%d", format, mask), pkgDesc{YAML: marshalConfig(&c), Files: extra, Formats: []string{format}}, st, nil)
		}
		// one script file serving several slots (install and upgrade doing the same), up to all of them
		for k := 2; k <= len(own); k += max(1, len(own)-2) {
			c := baseConfig("shared")
			c.Contents = files.Contents{{Source: "src/f1", Destination: "/usr/bin/f1"}}
			for i, s := range own {
				if i < k {
					s.set(&c, "scripts/shared.sh")
				}
			}
			extra := []extraFile{{Path: "scripts/shared.sh", Hex: hex.EncodeToString([]byte("#!/bin/sh\necho shared by several slots\n")), Mode: 0o755, MTime: 1650000000}}
			n++
			runPkgCase(w, fmt.Sprintf("s-%s-shared-%d", format, k), pkgDesc{YAML: marshalConfig(&c), Files: extra, Formats: []string{format}}, st, nil)
		}
		// scripts of exactly one mebibyte, one byte more, and a mebibyte and a half (installers that carry their payload):
		// every byte, whatever the size
		{
			c := baseConfig("bigscripts")
			c.Contents = files.Contents{{Source: "src/f1", Destination: "/usr/bin/f1"}}
			var extra []extraFile
			for i, s := range own {
				if format != "deb" && i >= 2 {
					break // deb has the most slots (seven control members); two of the others' are enough
				}
				size := []int{1<<20 + 1, 1 << 20, 3 << 19}[i%3]
				body := bytes.Repeat([]byte("#!/bin/sh\n# "+s.name+" payload line\n"), size/len("#!/bin/sh\n# "+s.name+" payload line\n")+1)[:size-1]
				body = append(body, '\n')
				extra = append(extra, extraFile{Path: "scripts/big-" + s.name, Hex: hex.EncodeToString(body), Mode: 0o755, MTime: 1650000000})
				s.set(&c, "scripts/big-"+s.name)
			}
			n++
			runPkgCase(w, fmt.Sprintf("s-%s-scripts-beyond-a-mebibyte", format), pkgDesc{YAML: marshalConfig(&c), Files: extra, Formats: []string{format}}, st, nil)
		}
		// script paths that go through a symbolic link and back up: the operating system resolves "hooks/.." to the
		// parent of the link's TARGET, a lexical clean-up of the path to the directory that holds the link - and
		// different scripts sit at the two places
		{
			c := baseConfig("viasymlink")
			c.Contents = files.Contents{{Source: "src/f1", Destination: "/usr/bin/f1"}}
			extra := []extraFile{{Path: "real/hooks/.placeholder", Hex: "", Mode: 0o644, MTime: 1650000000}, {Path: "proj/hooks", Link: "../real/hooks"}}
			for _, s := range own {
				extra = append(extra,
					extraFile{Path: "real/" + s.name, Hex: hex.EncodeToString([]byte("#!/bin/sh\necho the configured script " + s.name + "\n")), Mode: 0o755, MTime: 1650000000},
					extraFile{Path: "proj/" + s.name, Hex: hex.EncodeToString([]byte("#!/bin/sh\necho a different file at the lexically cleaned path " + s.name + "\n")), Mode: 0o755, MTime: 1650000000})
				s.set(&c, "proj/hooks/../"+s.name)
			}
			n++
			runPkgCase(w, fmt.Sprintf("s-%s-paths-through-a-symlink", format), pkgDesc{YAML: marshalConfig(&c), Files: extra, Formats: []string{format}}, st, nil)
		}
	}
	return n
}

func rotate(l []string, k int) []string {
	k = k % len(l)
	return append(append([]string{}, l[k:]...), l[:k]...)
}

// C03: payload shapes at the edges: empty payload, payload of total size 0 (symlinks, directories, empty
// files only), a file larger than the compressors' blocks under every compression setting, trees
func genC03Shapes(w *caseWriter, st *pkgStats) int {
	n := 0
	emit := func(tag string, c nfpm.Config) {
		n++
		runPkgCase(w, fmt.Sprintf("h-%s-%d", tag, n), pkgDesc{YAML: marshalConfig(&c), Formats: rotate(allFormats, n)}, st, nil)
	}
	c := baseConfig("empty")
	emit("empty", c)
	// a deb with a changelog: the installed size counts what is shipped (the compressed changelog), whatever the
	// payload's size is modulo 1024
	for k := 0; k < 8; k++ {
		c = baseConfig("chsize")
		c.Changelog = "changelog.yaml"
		c.Contents = files.Contents{{Source: "src/filler.bin", Destination: "/opt/chsize/filler.bin"}}
		n++
		runPkgCase(w, fmt.Sprintf("s-changelog-size-%d-%d", k, n), pkgDesc{YAML: marshalConfig(&c), Formats: []string{"deb"}, Files: []extraFile{
			{Path: "changelog.yaml", Hex: hex.EncodeToString([]byte(changelogYAML)), Mode: 0o644, MTime: 1650000100},
			{Path: "src/filler.bin", Hex: hex.EncodeToString(bytes.Repeat([]byte("f"), 3000+k*128)), Mode: 0o644, MTime: 1650000000}}}, st, nil)
	}
	c = baseConfig("zero")
	c.Contents = files.Contents{
		{Source: "/usr/bin/x", Destination: "/usr/bin/link", Type: files.TypeSymlink},
		{Destination: "/var/lib/zero", Type: files.TypeDir},
		{Source: "src/f2", Destination: "/usr/share/zero/empty-file"},
	}
	emit("zero-bytes", c)
	c = baseConfig("onlylinks")
	c.Contents = files.Contents{{Source: "/usr/bin/x", Destination: "/usr/bin/link", Type: files.TypeSymlink}}
	emit("only-symlink", c)
	c = baseConfig("dotted")
	c.Contents = files.Contents{
		{Source: "src/f1", Destination: "/.config/dotdemo/settings"}, {Source: "src/f2", Destination: "/.well-known/x"},
		{Source: "src/f1", Destination: "/..data/y"}, {Source: "src/f1", Destination: "/./.hidden/z"}, {Source: "src/f1", Destination: "/opt/.d/.f"},
	}
	emit("dot-leading-names", c)
	for _, dc := range []string{"", "gzip", "xz", "zstd", "none"} {
		for _, rc := range []string{"", "gzip:9", "xz", "lzma", "zstd"} {
			if (dc == "") != (rc == "") && dc != "none" {
				continue
			}
			c = baseConfig("big")
			c.Deb.Compression, c.RPM.Compression = dc, rc
			c.Contents = files.Contents{
				{Source: "src/big.bin", Destination: "/opt/big/big.bin"},
				{Source: "src/big2.bin", Destination: "/opt/big/big2.bin"},
				{Source: "src/d", Destination: "/opt/big/tree", Type: files.TypeTree},
				{Destination: "/opt/big/dir-with-mtime", Type: files.TypeDir, FileInfo: &files.ContentFileInfo{MTime: time.Unix(1400000000, 0).UTC()}},
			}
			emit("big-"+dc+"-"+rc, c)
		}
	}
	return n
}

// C02: a relation rpm cannot express (an operator that is none of < <= = >= >) in each of the six lists, with the build
// host configured and left to the machine: the package either fails to build or states every relation
func genC02Shapes(w *caseWriter, st *pkgStats) int {
	n := 0
	lists := []func(c *nfpm.Config) *[]string{
		func(c *nfpm.Config) *[]string { return &c.Provides }, func(c *nfpm.Config) *[]string { return &c.Depends },
		func(c *nfpm.Config) *[]string { return &c.Recommends }, func(c *nfpm.Config) *[]string { return &c.Replaces },
		func(c *nfpm.Config) *[]string { return &c.Suggests }, func(c *nfpm.Config) *[]string { return &c.Conflicts },
	}
	for li, get := range lists {
		for bi, bad := range []string{"libbad => 1.0", "libbad == 1.0", "libbad <> 2", "libbad =< 3"} {
			for _, host := range []string{"", "builder.example.org"} {
				c := baseConfig("badrel")
				c.RPM.BuildHost = host
				c.Depends, c.Provides, c.Conflicts = []string{"bash", "libc6 >= 2.17"}, []string{"virtual-thing = 1.0"}, []string{"oldthing < 2"}
				c.Recommends, c.Suggests, c.Replaces = []string{"nice-to-have"}, []string{"maybe"}, []string{"oldname"}
				l := get(&c)
				*l = append([]string{"good-before >= 1"}, append([]string{bad}, *l...)...)
				c.Contents = files.Contents{{Source: "src/f1", Destination: "/usr/bin/badrel"}}
				n++
				if (li+bi)%2 == 1 && host != "" {
					continue // half of the combinations with a configured host are enough
				}
				runPkgCase(w, fmt.Sprintf("h-rpm-relation-operator-%d-%d-%d", li, bi, n), pkgDesc{YAML: marshalConfig(&c), Formats: []string{"rpm", "deb"}}, st, nil)
			}
		}
	}
	return n
}

// C02: identity values that arrive through the environment (version, prerelease, platform, maintainer ...): what is
// split, defaulted and written is the substituted value
func genC02EnvShapes(w *caseWriter, st *pkgStats) int {
	n := 0
	for _, e := range []map[string]string{
		{"VERIF_V": "v1.2.3-rc1+git5", "VERIF_P": "", "VERIF_PLAT": "", "VERIF_D": ""},
		{"VERIF_V": "2.0.0-beta1+git5", "VERIF_P": "", "VERIF_PLAT": "linux", "VERIF_D": "from the environment"},
		{"VERIF_V": "1.4", "VERIF_P": "rc.2", "VERIF_PLAT": "", "VERIF_D": "two\nlines"},
		{"VERIF_V": "", "VERIF_P": "", "VERIF_PLAT": "", "VERIF_D": ""},
	} {
		n++
		doc := "name: envpkg\narch: amd64\nversion: ${VERIF_V}\nprerelease: ${VERIF_P}\nplatform: ${VERIF_PLAT}\ndescription: ${VERIF_D}\nmaintainer: M <m@example.com>\nmtime: 2023-11-14T22:13:20Z\nrpm:\n  buildhost: builder.example.org\ncontents:\n  - src: src/f1\n    dst: /usr/bin/envpkg\n"
		runPkgCase(w, fmt.Sprintf("h-values-through-the-environment-%d", n), pkgDesc{YAML: doc, Formats: rotate(allFormats, n), Env: e}, st, nil)
		// the version written out with its prerelease and metadata, the explicit prerelease a variable that is empty
		doc2 := strings.Replace(doc, "version: ${VERIF_V}", "version: 2.0.0-beta1+git5", 1)
		runPkgCase(w, fmt.Sprintf("h-literal-version-and-an-empty-prerelease-variable-%d", n), pkgDesc{YAML: doc2, Formats: rotate(allFormats, n+1), Env: map[string]string{"VERIF_P": "", "VERIF_PLAT": e["VERIF_PLAT"], "VERIF_D": e["VERIF_D"]}}, st, nil)
	}
	// pre-dependencies stated in the format's own block inside its override block
	n++
	runPkgCase(w, fmt.Sprintf("h-predepends-in-the-override-block-%d", n), pkgDesc{YAML: "name: ovpd\narch: amd64\nversion: 1.0.0\nmaintainer: M <m@example.com>\nmtime: 2023-11-14T22:13:20Z\n" +
		"rpm:\n  buildhost: builder.example.org\ndeb:\n  predepends: [top-pd]\nipk:\n  predepends: [top-ipd]\noverrides:\n  deb:\n    deb:\n      predepends: [over-pd, \"over-pd2 (>= 1)\"]\n  ipk:\n    ipk:\n      predepends: [over-ipd]\n" +
		"contents:\n  - src: src/f1\n    dst: /usr/bin/ovpd\n", Formats: []string{"deb", "ipk", "rpm"}}, st, nil)
	return n
}

// C04: names at the edges: first components that start with a dot next to their undotted siblings, names
// that sort before ".PKGINFO", scripts and other control members whose size is a multiple of 512
func genC04Shapes(w *caseWriter, st *pkgStats) int {
	n := 0
	emit := func(tag string, c nfpm.Config, extra []extraFile) {
		n++
		runPkgCase(w, fmt.Sprintf("h-%s-%d", tag, n), pkgDesc{YAML: marshalConfig(&c), Files: extra, Formats: rotate(allFormats, n)}, st, nil)
	}
	c := baseConfig("dots")
	c.Contents = files.Contents{
		{Source: "src/f1", Destination: "/.app/x"}, {Source: "src/f1", Destination: "/app/y"},
		{Source: "src/f1", Destination: "/..app/z"}, {Source: "src/f1", Destination: "/a/.b/c"}, {Source: "src/f1", Destination: "/a/b/c"},
		{Destination: "/./.hidden/", Type: files.TypeDir}, {Destination: "/hidden", Type: files.TypeDir},
	}
	emit("dot-components", c, nil)
	c = baseConfig("early")
	c.Contents = files.Contents{
		{Source: "src/f1", Destination: "/.BUILDINFO"}, {Source: "src/f1", Destination: "/+extras/f"},
		{Source: "src/f1", Destination: "/.AppDir/x"}, {Source: "src/f1", Destination: "/!bang"}, {Source: "src/f1", Destination: "/-dash/f"},
		{Source: "src/f1", Destination: "/a"}, {Destination: "/b/", Type: files.TypeDir}, {Source: "src/f1", Destination: "/0/1/2/3/4/5/6/7/8/9/deep"},
	}
	emit("names-sorting-before-pkginfo", c, nil)
	// names and targets beyond what a plain ustar header holds, and bytes outside ASCII
	long := strings.Repeat("n", 140)
	c = baseConfig("long")
	c.Contents = files.Contents{
		{Source: "src/f1", Destination: "/opt/long/" + long + ".txt"},
		{Source: "src/f1", Destination: "/opt/ünï cödé/fïle.txt"},
		{Source: "/usr/lib/" + long + "/target", Destination: "/usr/bin/long-link", Type: files.TypeSymlink},
		{Destination: "/opt/" + strings.Repeat("d", 120) + "/", Type: files.TypeDir},
		{Source: "src/f2", Destination: "/opt/" + strings.Repeat("p/", 70) + "deep.txt"},
	}
	emit("long-and-non-ascii-names", c, nil)
	// the file system root itself as a destination
	c = baseConfig("root")
	c.Contents = files.Contents{{Source: "src/d", Destination: "/", Type: files.TypeTree}}
	emit("tree-at-root", c, nil)
	c = baseConfig("rootdir")
	c.Contents = files.Contents{{Destination: "/", Type: files.TypeDir}, {Source: "src/f1", Destination: "/f1"}}
	emit("dir-at-root", c, nil)
	// signed packages: the signature member's name is built from the configured role, of any length
	for _, role := range []string{"builder", "twelve-chars", "thirteen-char", "release-manager-2"} {
		c = baseConfig("signedrole")
		c.Contents = files.Contents{{Source: "src/f1", Destination: "/usr/bin/f1"}}
		c.Deb.Signature.Method, c.Deb.Signature.Type = "dpkg-sig", role
		c.Deb.Signature.KeyFile = filepath.Join(repoDir(), "internal/sign/testdata/privkey_unprotected.asc")
		n++
		runPkgCase(w, fmt.Sprintf("h-dpkg-sig-role-%s-%d", role, n), pkgDesc{YAML: marshalConfig(&c), Formats: []string{"deb"}}, st, nil)
	}
	for _, typ := range []string{"origin", "maint", "archive"} {
		c = baseConfig("signedtype")
		c.Contents = files.Contents{{Source: "src/f1", Destination: "/usr/bin/f1"}}
		c.Deb.Signature.Type = typ
		c.Deb.Signature.KeyFile = filepath.Join(repoDir(), "internal/sign/testdata/privkey_unprotected.asc")
		c.RPM.Signature.KeyFile = c.Deb.Signature.KeyFile
		c.APK.Signature.KeyFile, c.APK.Signature.KeyName = filepath.Join(repoDir(), "internal/sign/testdata/rsa_unprotected.priv"), "verif.rsa.pub"
		emit("signed-"+typ, c, nil)
	}
	// payloads larger than one block of any compressor, under every compression a deb can name: the reference reader
	// (dpkg-deb) must be able to unpack the member with its default limits
	for _, dc := range []string{"gzip", "xz", "zstd", "none"} {
		c = baseConfig("bigdeb")
		c.Deb.Compression = dc
		c.Contents = files.Contents{{Source: "src/big.bin", Destination: "/opt/bigdeb/big.bin"}, {Source: "src/big2.bin", Destination: "/opt/bigdeb/big2.bin"}}
		n++
		runPkgCase(w, fmt.Sprintf("h-big-deb-%s-%d", dc, n), pkgDesc{YAML: marshalConfig(&c), Formats: []string{"deb", "archlinux"}}, st, nil)
	}
	for _, size := range []int{512, 1024, 4096, 511, 513} {
		c = baseConfig("blocks")
		c.Contents = files.Contents{{Source: "src/f1", Destination: "/usr/bin/f1"}}
		body := make([]byte, size)
		for i := range body {
			body[i] = "#!/bin/sh\n"[i%10]
		}
		var extra []extraFile
		for _, s := range append(append([]slotSetter{}, slotSetters["common"]...), slotSetters["apk"]...) {
			p := "scripts/" + s.name
			extra = append(extra, extraFile{Path: p, Hex: hex.EncodeToString(body), Mode: 0o755, MTime: 1650000000})
			s.set(&c, p)
		}
		emit(fmt.Sprintf("script-size-%d", size), c, extra)
	}
	return n
}

// Shapes that are valid but unusual, shared by the package-level properties: special mode bits on a file larger
// than any in-memory threshold, backslashes in names (systemd-escaped units), a destination occupied twice under two
// spellings, a file declared by a glob and again as a configuration file, a user file where the deb changelog
// goes, a changelog none of whose entries carries a date.
func genEdgeShapes(w *caseWriter, st *pkgStats) int {
	n := 0
	emit := func(tag string, c nfpm.Config, extra []extraFile) {
		n++
		runPkgCase(w, fmt.Sprintf("e-%s-%d", tag, n), pkgDesc{YAML: marshalConfig(&c), Files: extra, Formats: rotate(allFormats, n)}, st, nil)
	}
	c := baseConfig("modes")
	c.Contents = files.Contents{
		{Source: "src/big2.bin", Destination: "/usr/bin/suid-big", FileInfo: &files.ContentFileInfo{Mode: 0o4755}},
		{Source: "src/big2.bin", Destination: "/usr/bin/sgid-big", FileInfo: &files.ContentFileInfo{Mode: 0o2755, Owner: "root", Group: "games"}},
		{Source: "src/f1", Destination: "/usr/bin/suid-small", FileInfo: &files.ContentFileInfo{Mode: 0o4711}},
		{Source: "src/f2", Destination: "/var/spool/sticky-file", FileInfo: &files.ContentFileInfo{Mode: 0o1644}},
		{Destination: "/var/spool/shared", Type: files.TypeDir, FileInfo: &files.ContentFileInfo{Mode: 0o3775, Group: "staff"}},
	}
	emit("special-mode-bits-large-files", c, nil)
	c = baseConfig("backslash")
	esc := []extraFile{{Path: "src/esc/mnt-my\\x2ddisk.mount", Hex: hex.EncodeToString([]byte("[Mount]\nWhat=/dev/disk/by-label/my-disk\n")), Mode: 0o644, MTime: 1650000000},
		{Path: "src/esc/plain.service", Hex: hex.EncodeToString([]byte("[Service]\n")), Mode: 0o644, MTime: 1650000000}}
	c.Contents = files.Contents{
		{Source: "src/f1", Destination: "/etc/systemd/system/dev-disk-by\\x2dlabel-data.device"},
		{Source: "src/esc", Destination: "/usr/lib/systemd/system", Type: files.TypeTree},
		{Source: "src/f2", Destination: "/opt/back\\slash/dir\\file"},
	}
	emit("backslash-in-names", c, esc)
	c = baseConfig("twice")
	c.Contents = files.Contents{{Source: "src/f1", Destination: "usr/bin/tool"}, {Source: "src/f2", Destination: "/usr/bin/tool"}}
	emit("one-place-two-spellings", c, nil)
	c = baseConfig("filedir")
	c.Contents = files.Contents{{Source: "src/f1", Destination: "opt/app"}, {Destination: "/opt/app", Type: files.TypeDir}}
	emit("file-and-dir-one-place", c, nil)
	c = baseConfig("globconf")
	c.Contents = files.Contents{{Source: "src/d/*", Destination: "/etc/globconf/"}, {Source: "src/d/x", Destination: "/etc/globconf/x", Type: files.TypeConfigNoReplace}}
	emit("glob-then-config-for-one-match", c, nil)
	c = baseConfig("treeconf")
	c.Contents = files.Contents{{Source: "src/d", Destination: "/etc/treeconf", Type: files.TypeTree}, {Source: "src/d/x", Destination: "/etc/treeconf/x", Type: files.TypeConfig}}
	emit("tree-then-config-for-one-file", c, nil)
	for i, occ := range []files.Content{
		{Source: "src/f1", Destination: "/usr/share/doc/chlog/changelog.Debian.gz"},
		{Source: "src/f1", Destination: "/usr/share/doc/chlog/changelog.Debian.gz", Packager: "rpm"},
		{Source: "/usr/share/doc/chlog/NEWS.gz", Destination: "/usr/share/doc/chlog/changelog.Debian.gz", Type: files.TypeSymlink},
	} {
		c = baseConfig("chlog")
		c.Changelog = "changelog.yaml"
		o := occ
		c.Contents = files.Contents{{Source: "src/f2", Destination: "/usr/bin/chlog"}, &o}
		emit(fmt.Sprintf("changelog-path-occupied-%d", i), c, []extraFile{{Path: "changelog.yaml", Hex: hex.EncodeToString([]byte(changelogYAML)), Mode: 0o644, MTime: 1650000100}})
	}
	// no package mtime: files take the mtime of their source, whole seconds and never a second the source did not have
	c = baseConfig("fractions")
	c.MTime = time.Time{}
	c.Contents = files.Contents{{Source: "src/frac/half", Destination: "/opt/frac/half"}, {Source: "src/frac/nine", Destination: "/opt/frac/nine"},
		{Source: "src/frac/four", Destination: "/opt/frac/four"}, {Source: "src/frac", Destination: "/opt/frac/tree", Type: files.TypeTree}}
	emit("source-mtimes-with-fractions", c, []extraFile{
		{Path: "src/frac/half", Hex: hex.EncodeToString([]byte("h")), Mode: 0o644, MTime: 1650000007, Nanos: 500000000},
		{Path: "src/frac/nine", Hex: hex.EncodeToString([]byte("n")), Mode: 0o644, MTime: 1650000008, Nanos: 999999999},
		{Path: "src/frac/four", Hex: hex.EncodeToString([]byte("f")), Mode: 0o644, MTime: 1650000009, Nanos: 400000000},
		{Path: "src/frac", Dir: true, MTime: 1650000010, Nanos: 700000000}})
	// a umask that takes every permission bit away
	c = baseConfig("umaskall")
	c.Umask = 0o777
	c.Contents = files.Contents{{Source: "src/f1", Destination: "/opt/umaskall/f1"}, {Source: "src/d", Destination: "/opt/umaskall/tree", Type: files.TypeTree},
		{Source: "src/f2", Destination: "/opt/umaskall/explicit", FileInfo: &files.ContentFileInfo{Mode: 0o640}}}
	emit("umask-0777", c, nil)
	// ghosts without a declared mode under umasks that share bits with 0644: a ghost has nothing a umask applies to
	for ui, um := range []os.FileMode{0o27, 0o77, 0o66} {
		c = baseConfig(fmt.Sprintf("ghostumask%d", ui))
		c.Umask = um
		c.Contents = files.Contents{{Destination: "/var/log/ghostumask/app.log", Type: files.TypeRPMGhost}, {Source: "src/f1", Destination: "/opt/ghostumask/f1"},
			{Destination: "/var/lib/ghostumask/state", Type: files.TypeRPMGhost, FileInfo: &files.ContentFileInfo{Mode: 0o664}}}
		emit(fmt.Sprintf("ghost-without-mode-under-umask-%o", um), c, nil)
	}
	c = baseConfig("umask700")
	c.Umask = 0o700
	c.Contents = files.Contents{{Source: "src/d/x", Destination: "/opt/umask700/was-0600"}, {Source: "src/f1", Destination: "/opt/umask700/was-0644"}}
	emit("umask-0700", c, nil)
	// owner and group names longer than a ustar header holds
	c = baseConfig("longowner")
	long40 := strings.Repeat("o", 40)
	c.Contents = files.Contents{{Destination: "/var/lib/longowner", Type: files.TypeDir, FileInfo: &files.ContentFileInfo{Owner: long40, Group: "g" + long40, Mode: 0o750}},
		{Source: "src/f1", Destination: "/var/lib/longowner/f1", FileInfo: &files.ContentFileInfo{Owner: long40, Group: "staff"}},
		{Source: "/etc/target", Destination: "/var/lib/longowner/link", Type: files.TypeSymlink, FileInfo: &files.ContentFileInfo{Owner: long40}}}
	emit("owner-names-of-40-bytes", c, nil)
	// ... on a directory only (the formats that cannot store such a name must say so, not leave the directory out)
	c = baseConfig("longownerdir")
	c.Contents = files.Contents{{Destination: "/var/lib/longownerdir", Type: files.TypeDir, FileInfo: &files.ContentFileInfo{Owner: long40, Group: "g" + long40, Mode: 0o750}},
		{Source: "src/f1", Destination: "/var/lib/longownerdir/f1"}, {Source: "src/k", Destination: "/var/lib/longownerdir/tree", Type: files.TypeTree}}
	emit("owner-names-of-40-bytes-on-directories", c, nil)
	// declared modes whose value, printed in decimal, looks like an octal mode (0o1363 is 755, 0o1204 is 644 ...): they are
	// numbers like any other and are stored verbatim
	c = baseConfig("decimalmodes")
	c.Contents = files.Contents{
		{Source: "src/f1", Destination: "/opt/decimal/is755", FileInfo: &files.ContentFileInfo{Mode: 0o1363}},
		{Source: "src/f2", Destination: "/opt/decimal/is644", FileInfo: &files.ContentFileInfo{Mode: 0o1204}},
		{Source: "src/f1", Destination: "/opt/decimal/is777", FileInfo: &files.ContentFileInfo{Mode: 0o1411}},
		{Source: "src/f1", Destination: "/opt/decimal/is512", FileInfo: &files.ContentFileInfo{Mode: 0o1000}},
		{Source: "src/f1", Destination: "/opt/decimal/is600", Type: files.TypeConfig, FileInfo: &files.ContentFileInfo{Mode: 0o1130}},
		{Destination: "/opt/decimal/dir750", Type: files.TypeDir, FileInfo: &files.ContentFileInfo{Mode: 0o1356}},
		{Source: "src/k", Destination: "/opt/decimal/tree", Type: files.TypeTree, FileInfo: &files.ContentFileInfo{Mode: 0o1274}},
	}
	emit("modes-that-read-as-octal-in-decimal", c, nil)
	// symbolic links on disk that cannot be followed (a loop, a path through a regular file) or whose target is not
	// lexically clean: a link is packaged as the link it is, target verbatim, however it was found
	c = baseConfig("oddlinks")
	odd := []extraFile{{Path: "src/odd/a.txt", Hex: hex.EncodeToString([]byte("a")), Mode: 0o644, MTime: 1650000200},
		{Path: "src/odd/self", Link: "self"}, {Path: "src/odd/through-file", Link: "a.txt/inner"},
		{Path: "src/odd/dotrel", Link: "./a.txt"}, {Path: "src/odd/doubled", Link: "..//odd/a.txt"},
		{Path: "src/odd/trailing", Link: "../odd/"}, {Path: "src/odd/updown", Link: "sub/../a.txt"},
		{Path: "src/odd/ping", Link: "pong"}, {Path: "src/odd/pong", Link: "ping"}}
	c.Contents = files.Contents{{Source: "src/odd/*", Destination: "/opt/odd-glob/"}, {Source: "src/odd", Destination: "/opt/odd-dir"},
		{Source: "src/odd", Destination: "/opt/odd-tree", Type: files.TypeTree}, {Source: "src/odd/self", Destination: "/opt/odd-single/self"},
		{Source: "src/odd/doubled", Destination: "/opt/odd-single/doubled", Type: files.TypeConfig}}
	emit("links-that-cannot-be-followed-or-are-not-clean", c, odd)
	// a configuration directory declared for every format and claimed, with its own mode, by an rpm-only dir entry (the
	// set-up the documentation of dir recommends); likewise a format-specific symlink beside a common config glob
	c = baseConfig("claimed")
	c.Contents = files.Contents{{Source: "src/k/conf.d/", Destination: "/etc/claimed", Type: files.TypeConfigNoReplace},
		{Destination: "/etc/claimed", Type: files.TypeDir, Packager: "rpm", FileInfo: &files.ContentFileInfo{Mode: 0o750}},
		{Source: "src/d/*", Destination: "/etc/claimed2/", Type: files.TypeConfig},
		{Destination: "/etc/claimed2/", Type: files.TypeDir, Packager: "deb", FileInfo: &files.ContentFileInfo{Mode: 0o700}},
		{Destination: "/etc/claimed2", Type: files.TypeDir, Packager: "archlinux"}}
	emit("config-directory-claimed-by-a-format-specific-dir", c, nil)
	// a declared configuration file whose source is not there: no package, whatever the flavour
	for i, typ := range []string{files.TypeConfig, files.TypeConfigNoReplace, files.TypeConfigMissingOK, files.TypeFile} {
		for j, src := range []string{"src/not-there.conf", "src/conf.none/*.conf"} {
			c = baseConfig("absentconf")
			c.Contents = files.Contents{{Source: "src/f1", Destination: "/usr/bin/absentconf"}, {Source: src, Destination: "/etc/absentconf/", Type: typ}}
			emit(fmt.Sprintf("config-source-absent-%d-%d", i, j), c, nil)
		}
	}
	// a pattern beside a regular file of the pattern's own name (globbing is on: the pattern means its matches)
	c = baseConfig("patname")
	pat := []extraFile{{Path: "src/patx/app[12].conf", Hex: hex.EncodeToString([]byte("literal")), Mode: 0o644, MTime: 1650000400},
		{Path: "src/patx/app1.conf", Hex: hex.EncodeToString([]byte("one")), Mode: 0o644, MTime: 1650000400},
		{Path: "src/patx/app2.conf", Hex: hex.EncodeToString([]byte("two")), Mode: 0o644, MTime: 1650000400},
		{Path: "src/patx/data*", Hex: hex.EncodeToString([]byte("star")), Mode: 0o644, MTime: 1650000400},
		{Path: "src/patx/dataX", Hex: hex.EncodeToString([]byte("x")), Mode: 0o644, MTime: 1650000400}}
	c.Contents = files.Contents{{Source: "src/patx/app[12].conf", Destination: "/etc/patx/", Type: files.TypeConfig}, {Source: "src/patx/data*", Destination: "/opt/patx"}}
	emit("pattern-beside-a-file-of-its-own-name", c, pat)
	// control characters other than blank, tab and newline in names and link targets (a carriage return, a bell, DEL)
	c = baseConfig("ctlbytes")
	c.Contents = files.Contents{{Source: "src/f1", Destination: "/opt/ctl/cr\rname"}, {Source: "src/f2", Destination: "/opt/ctl/bell\x07name"},
		{Source: "src/f1", Destination: "/opt/ctl/del\x7fname"}, {Source: "/opt/ctl/vt\x0btarget", Destination: "/opt/ctl/link", Type: files.TypeSymlink},
		{Destination: "/opt/ctl/ff\x0cdir", Type: files.TypeDir}}
	emit("control-bytes-in-names", c, nil)
	// destinations spelt with a doubled slash, of every entry type that is not globbed
	c = baseConfig("dblslash")
	c.Contents = files.Contents{{Destination: "/var//lib/dbl", Type: files.TypeDir}, {Source: "/usr/bin/x", Destination: "/usr//bin/dbl-link", Type: files.TypeSymlink},
		{Source: "src/f1", Destination: "/usr//bin/dbl-file"}, {Destination: "/var/log//dbl.log", Type: files.TypeRPMGhost},
		{Source: "src/f1", Destination: "/usr/share//doc/dbl/README", Type: files.TypeRPMReadme}, {Source: "src/f2", Destination: "/var/lib/dbl/inside"}}
	emit("doubled-slashes-in-destinations", c, nil)
	// licence, readme and ghost entries below the documentation directories: each carries exactly its own flag
	c = baseConfig("docdirs")
	c.Contents = files.Contents{{Source: "src/f1", Destination: "/usr/share/doc/docdirs/LICENSE", Type: files.TypeRPMLicence},
		{Source: "src/f1", Destination: "/usr/share/doc/docdirs/README", Type: files.TypeRPMReadme}, {Destination: "/usr/share/info/dir", Type: files.TypeRPMGhost},
		{Source: "src/f2", Destination: "/usr/share/man/man1/docdirs.1", Type: files.TypeRPMDoc}, {Source: "src/f1", Destination: "/usr/share/doc/docdirs/plain"}}
	emit("rpm-flags-below-documentation-directories", c, nil)
	// a symbolic link entry whose target exists on the build host, and one with every file_info field set
	c = baseConfig("livelink")
	if wd, err := os.Getwd(); err == nil {
		c.Contents = files.Contents{{Source: filepath.Join(wd, "src/big.bin"), Destination: "/opt/livelink/to-big", Type: files.TypeSymlink},
			{Source: "src/f1", Destination: "/opt/livelink/relative-and-there", Type: files.TypeSymlink,
				FileInfo: &files.ContentFileInfo{Owner: "svc", Group: "svc", Mode: 0o777, MTime: time.Unix(1500000000, 0).UTC()}},
			{Source: "src/f1", Destination: "/opt/livelink/file"}}
		emit("symlink-targets-that-exist-on-the-build-host", c, nil)
	}
	// names on disk that are not valid UTF-8 (Latin-1, a truncated sequence), reached through a tree and a pattern; a
	// percent sign in the name of a configuration file
	c = baseConfig("rawbytes")
	rawb := []extraFile{{Path: "src/raw/caf\xe9.txt", Hex: hex.EncodeToString([]byte("latin-1 name")), Mode: 0o644, MTime: 1650000500},
		{Path: "src/raw/trunc\xe2\x82.bin", Hex: hex.EncodeToString([]byte("truncated sequence")), Mode: 0o644, MTime: 1650000500},
		{Path: "src/raw/limits-100%.conf", Hex: hex.EncodeToString([]byte("percent")), Mode: 0o644, MTime: 1650000500},
		{Path: "src/raw/link\xff", Link: "caf\xe9.txt"}}
	c.Contents = files.Contents{{Source: "src/raw", Destination: "/opt/raw-tree", Type: files.TypeTree}, {Source: "src/raw/*", Destination: "/etc/raw/", Type: files.TypeConfigNoReplace},
		{Source: "src/f1", Destination: "/etc/raw/50%-more.conf", Type: files.TypeConfig}}
	emit("names-that-are-not-utf8-and-percent-signs", c, rawb)
	// a symbolic link entry whose destination is written with a trailing slash: the link is AT that path
	c = baseConfig("linkslash")
	c.Contents = files.Contents{{Source: "/usr/lib/app/tool", Destination: "/opt/linkslash/bin/", Type: files.TypeSymlink}, {Source: "src/f1", Destination: "/opt/linkslash/other"}}
	emit("symlink-destination-with-trailing-slash", c, nil)
	// an entry listed before a tree at a place where the tree has a directory with content: one of them has to go
	c = baseConfig("overtree")
	c.Contents = files.Contents{{Source: "releases/1", Destination: "/opt/overtree/sub", Type: files.TypeSymlink}, {Source: "src/d", Destination: "/opt/overtree", Type: files.TypeTree}}
	emit("symlink-where-a-later-tree-has-a-directory", c, nil)
	c = baseConfig("overtree2")
	c.Contents = files.Contents{{Source: "src/f1", Destination: "/opt/overtree2/sub"}, {Source: "src/d", Destination: "/opt/overtree2", Type: files.TypeTree}}
	emit("file-where-a-later-tree-has-a-directory", c, nil)
	// a tree whose source path runs THROUGH a symbolic link (a linked build directory): the tree lands at its destination
	c = baseConfig("vialink")
	c.Contents = files.Contents{{Source: "src/lnkdir/sub", Destination: "/opt/via-link", Type: files.TypeTree}, {Source: "src/lnkdir/x", Destination: "/opt/via-link-file"}}
	emit("tree-source-through-a-symbolic-link", c, nil)
	// a ghost that names a source which is not there (ghosts are not read), without a mode
	c = baseConfig("ghostsrc")
	c.Contents = files.Contents{{Source: "src/not-there-ghost.log", Destination: "/var/log/ghostsrc.log", Type: files.TypeRPMGhost}, {Source: "src/f1", Destination: "/usr/bin/ghostsrc"}}
	emit("ghost-with-a-source-that-is-not-there", c, nil)
	// sources the kernel makes up (procfs: stat says 0 bytes, a read returns more): sizes a package states count what it ships
	c = baseConfig("procfs")
	// (files whose text does not change while the machine runs: the crypto and i/o memory tables, not cpuinfo or meminfo)
	c.Contents = files.Contents{{Source: "/proc/crypto", Destination: "/opt/procfs/crypto"}, {Source: "/proc/iomem", Destination: "/opt/procfs/iomem"}, {Source: "src/f1", Destination: "/opt/procfs/f1"}}
	n++
	runPkgCase(w, fmt.Sprintf("e-sources-from-procfs-%d", n), pkgDesc{YAML: marshalConfig(&c), Formats: []string{"ipk", "rpm"}}, st, nil)
	// entries dated AFTER the package mtime (a declared per-entry time, tree directories with their own time): each entry
	// carries its own time everywhere the package states it
	c = baseConfig("latertimes")
	c.Contents = files.Contents{{Source: "src/f1", Destination: "/opt/later/f1", FileInfo: &files.ContentFileInfo{MTime: time.Unix(4102444800, 0).UTC()}},
		{Destination: "/opt/later/dir", Type: files.TypeDir, FileInfo: &files.ContentFileInfo{MTime: time.Unix(1900000000, 0).UTC()}},
		{Source: "/x", Destination: "/opt/later/link", Type: files.TypeSymlink, FileInfo: &files.ContentFileInfo{MTime: time.Unix(1900000001, 0).UTC()}}}
	emit("entries-dated-after-the-package-mtime", c, nil)
	// a tree with a declared mode replicated AT a directory the system tables name
	c = baseConfig("treeatsys")
	c.Contents = files.Contents{{Source: "src/k", Destination: "/usr/local/bin", Type: files.TypeTree, FileInfo: &files.ContentFileInfo{Mode: 0o711, Owner: "svc"}},
		{Source: "src/d", Destination: "/opt", Type: files.TypeTree, FileInfo: &files.ContentFileInfo{Mode: 0o700}}}
	emit("tree-with-declared-mode-at-a-system-directory", c, nil)
	c = baseConfig("nodate")
	c.Changelog = "changelog.yaml"
	c.Contents = files.Contents{{Source: "src/f1", Destination: "/usr/bin/nodate"}}
	emit("changelog-without-dates", c, []extraFile{{Path: "changelog.yaml", Hex: hex.EncodeToString([]byte("- semver: \"1.2.3\"\n  packager: \"No Date <nodate@example.com>\"\n  changes:\n    - note: \"undated\"\n")), Mode: 0o644, MTime: 1650000100}})
	return n
}
