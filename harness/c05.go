package main

import (
	"encoding/hex"
	"errors"
	"fmt"
	"go/ast"
	"go/parser"
	"go/token"
	"io/fs"
	"math/rand"
	"os"
	"path/filepath"
	"sort"
	"strconv"
	"strings"
	"time"

	"github.com/goreleaser/fileglob"
	"github.com/goreleaser/nfpm/v2/files"
)

// ---- source tree shared by the planning-level properties ----

type srcFile struct {
	path  string
	mode  os.FileMode
	data  string
	link  string // non-empty: symlink
	dir   bool
	mtime int64
}

var baseTree = []srcFile{
	{path: "src", dir: true, mode: 0o755, mtime: 1600000000},
	{path: "src/f1", mode: 0o644, data: "hello\n", mtime: 1600000001},
	{path: "src/f2", mode: 0o755, data: "", mtime: 1600000002},
	{path: "src/g[1].txt", mode: 0o640, data: "brackets", mtime: 1600000003},
	{path: "src/d", dir: true, mode: 0o750, mtime: 1600000010},
	{path: "src/d/x", mode: 0o600, data: "xx", mtime: 1600000011},
	{path: "src/d/y y", mode: 0o644, data: "with space", mtime: 1600000012},
	{path: "src/d/sub", dir: true, mode: 0o2775, mtime: 1600000013},
	{path: "src/d/sub/z", mode: 0o4755, data: "zzz", mtime: 1600000014},
	{path: "src/d/lnk", link: "x"},
	{path: "src/d/spool", dir: true, mode: 0o1777, mtime: 1600000016},
	{path: "src/d/spool/t", mode: 0o1644, data: "sticky", mtime: 1600000017},
	{path: "src/d/.keep", mode: 0o644, data: "", mtime: 1600000015},
	{path: "src/lnkdir", link: "d"},
	{path: "src/lnk2", link: "lnkdir"},
	{path: "src/e", dir: true, mode: 0o700, mtime: 1600000020},
	{path: "src/dangling", link: "/nonexistent/target"},
	{path: "src/h", dir: true, mode: 0o755, mtime: 1600000030},
	{path: "src/h/x", mode: 0o644, data: "other x", mtime: 1600000031},
	// sibling directories where one name is a string prefix of the other
	{path: "src/k", dir: true, mode: 0o755, mtime: 1600000040},
	{path: "src/k/conf", dir: true, mode: 0o755, mtime: 1600000041},
	{path: "src/k/conf/app.cfg", mode: 0o644, data: "app", mtime: 1600000042},
	{path: "src/k/conf.d", dir: true, mode: 0o755, mtime: 1600000043},
	{path: "src/k/conf.d/extra.cfg", mode: 0o644, data: "extra", mtime: 1600000044},
	{path: "src/k/conf.d/deep", dir: true, mode: 0o755, mtime: 1600000045},
	{path: "src/k/conf.d/deep/z.cfg", mode: 0o644, data: "z", mtime: 1600000046},
	// links the OS cannot follow (a loop, a path through a regular file) and links whose target is not lexically clean
	{path: "src/odd", dir: true, mode: 0o755, mtime: 1600000050},
	{path: "src/odd/a.txt", mode: 0o644, data: "a", mtime: 1600000051},
	{path: "src/odd/self", link: "self"},
	{path: "src/odd/through-file", link: "a.txt/inner"},
	{path: "src/odd/dotrel", link: "./a.txt"},
	{path: "src/odd/doubled", link: "..//odd/a.txt"},
	// a file whose NAME is a pattern, beside the files the pattern matches
	{path: "src/g1.txt", mode: 0o644, data: "matched by the pattern g[1].txt", mtime: 1600000060},
	{path: "src/pat", dir: true, mode: 0o755, mtime: 1600000061},
	{path: "src/pat/app[12].conf", mode: 0o644, data: "literal", mtime: 1600000062},
	{path: "src/pat/app1.conf", mode: 0o644, data: "one", mtime: 1600000063},
	{path: "src/pat/app2.conf", mode: 0o644, data: "two", mtime: 1600000064},
	// names that begin with a dot, directly in the working directory (patterns without a directory part)
	{path: ".toprc", mode: 0o644, data: "top", mtime: 1600000070},
	{path: ".hidden", dir: true, mode: 0o755, mtime: 1600000071},
	{path: ".hidden/sub", dir: true, mode: 0o755, mtime: 1600000072},
	{path: ".hidden/sub/x.conf", mode: 0o644, data: "hidden", mtime: 1600000073},
	// names the build host is likely to have as symbolic links at the same place below / (os-release below /etc, bin below /)
	{path: "src/host", dir: true, mode: 0o755, mtime: 1600000080},
	{path: "src/host/os-release", mode: 0o644, data: "ours", mtime: 1600000081},
	{path: "src/hostroot", dir: true, mode: 0o755, mtime: 1600000082},
	{path: "src/hostroot/bin", dir: true, mode: 0o755, mtime: 1600000083},
	{path: "src/hostroot/bin/tool", mode: 0o755, data: "tool", mtime: 1600000084},
	{path: "src/hostroot/var", dir: true, mode: 0o755, mtime: 1600000085},
	{path: "src/hostroot/var/run", dir: true, mode: 0o755, mtime: 1600000086},
	{path: "src/hostroot/var/run/x.pid", mode: 0o644, data: "1", mtime: 1600000087},
	// a name in decomposed Unicode form (e + combining acute) beside the composed one
	{path: "src/nfc", dir: true, mode: 0o755, mtime: 1600000090},
	{path: "src/nfc/e\u0301.txt", mode: 0o644, data: "decomposed", mtime: 1600000091},
	{path: "src/nfc/\u00e9.txt", mode: 0o644, data: "composed", mtime: 1600000092},
}

func materialise(root string, tree []srcFile) {
	for _, f := range tree {
		p := filepath.Join(root, f.path)
		switch {
		case f.dir:
			must(os.MkdirAll(p, 0o755))
		case f.link != "":
			must(os.Symlink(f.link, p))
		default:
			must(os.MkdirAll(filepath.Dir(p), 0o755))
			must(os.WriteFile(p, []byte(f.data), 0o600))
			must(os.Chmod(p, fileModeFromUnix(f.mode)))
		}
	}
	// directory modes and all mtimes last (creating children touches parents)
	for i := len(tree) - 1; i >= 0; i-- {
		f := tree[i]
		p := filepath.Join(root, f.path)
		if f.link != "" {
			continue
		}
		if f.dir {
			must(os.Chmod(p, fileModeFromUnix(f.mode)))
		}
		t := time.Unix(f.mtime, 0)
		must(os.Chtimes(p, t, t))
	}
}

// unix permission bits incl. 04000/02000/01000 -> Go FileMode
func fileModeFromUnix(m os.FileMode) os.FileMode {
	r := m & 0o777
	if m&0o4000 != 0 {
		r |= os.ModeSetuid
	}
	if m&0o2000 != 0 {
		r |= os.ModeSetgid
	}
	if m&0o1000 != 0 {
		r |= os.ModeSticky
	}
	return r
}

// ---- a planning case ----

type c05Case struct {
	id       string
	entries  []*files.Content
	umask    fs.FileMode
	packager string
	noGlob   bool
	mtime    time.Time
	files    []extraFile // written below the source tree before the case and removed after it
}

func cloneContents(in []*files.Content) files.Contents {
	out := make(files.Contents, len(in))
	for i, c := range in {
		cc := *c
		if c.FileInfo != nil {
			fi := *c.FileInfo
			cc.FileInfo = &fi
		}
		out[i] = &cc
	}
	return out
}

func isFileLike(t string) bool {
	switch t {
	case "", files.TypeFile, files.TypeConfig, files.TypeConfigNoReplace, files.TypeConfigMissingOK:
		return true
	}
	return false
}

type statSet map[string]struct{}

func writeOracle(w *caseWriter, c *files.Content, noGlob bool, ss statSet) {
	ss[c.Source] = struct{}{}
	ss[files.ToNixPath(c.Source)] = struct{}{}
	switch {
	case isFileLike(c.Type):
		pattern := filepath.ToSlash(c.Source)
		opts := []fileglob.OptFunc{fileglob.MatchDirectoryIncludesContents}
		if noGlob {
			opts = append(opts, fileglob.QuoteMeta)
		}
		if strings.HasPrefix(pattern, "../") {
			p, err := filepath.Abs(pattern)
			if err != nil {
				w.line("glob err other")
				return
			}
			pattern = filepath.ToSlash(p)
		}
		matches, err := fileglob.Glob(pattern, append(opts, fileglob.MaybeRootFS)...)
		if err != nil {
			if errors.Is(err, os.ErrNotExist) {
				w.line("glob err notexist")
			} else {
				w.line("glob err globother")
			}
			return
		}
		useLcp := false
		if _, err := os.Stat(pattern); errors.Is(err, fs.ErrNotExist) || (fileglob.ContainsMatchers(pattern) && !noGlob) {
			useLcp = true
		}
		w.line("glob ok %s %d", xs(pattern), b2i(useLcp))
		for _, m := range matches {
			isdir := false
			if f, err := os.Stat(m); err == nil && f.Mode().IsDir() {
				isdir = true
			}
			link, lerr := os.Readlink(m)
			w.line("match %s %d %d %s", xs(m), b2i(isdir), b2i(lerr == nil), xs(link))
			ss[files.ToNixPath(m)] = struct{}{}
		}
	case c.Type == files.TypeTree:
		type item struct{ line string }
		var items []string
		err := filepath.WalkDir(c.Source, func(path string, d fs.DirEntry, err error) error {
			if err != nil {
				return err
			}
			switch {
			case d.IsDir():
				info, err := d.Info()
				if err != nil {
					return err
				}
				items = append(items, fmt.Sprintf("wdir %s %d %d", xs(path), uint32(info.Mode()), info.ModTime().Unix()))
			case d.Type()&os.ModeSymlink != 0:
				t, err := os.Readlink(path)
				if err != nil {
					return err
				}
				t = filepath.ToSlash(strings.TrimPrefix(t, filepath.VolumeName(t)))
				items = append(items, fmt.Sprintf("wlink %s %s", xs(path), xs(t)))
				ss[t] = struct{}{}
			default:
				items = append(items, fmt.Sprintf("wfile %s %d", xs(path), uint32(d.Type())))
				ss[path] = struct{}{}
			}
			return nil
		})
		if err != nil {
			w.line("walk err %s", classifyWalk(err))
			return
		}
		w.line("walk ok")
		for _, l := range items {
			w.line("%s", l)
		}
	}
}

func classifyWalk(err error) string {
	if errors.Is(err, fs.ErrNotExist) {
		return "notexist"
	}
	return "walk"
}

func writeContentLine(w *caseWriter, tag string, c *files.Content) {
	fi := c.FileInfo
	if fi == nil {
		w.line("%s %s %s %s %s 0 x x 0 %d 0", tag, xs(c.Source), xs(c.Destination), xs(c.Type), xs(c.Packager), time.Time{}.Unix())
		return
	}
	w.line("%s %s %s %s %s 1 %s %s %d %d %d", tag, xs(c.Source), xs(c.Destination), xs(c.Type), xs(c.Packager),
		xs(fi.Owner), xs(fi.Group), uint32(fi.Mode), fi.MTime.Unix(), fi.Size)
}

func obsString(cs files.Contents, err error) string {
	var b strings.Builder
	cl := classify(err)
	if err != nil {
		// a tree whose walk fails with ENOENT is reported under "add tree"; classify by cause first
		fmt.Fprintf(&b, "impl err %s\n", cl)
		return b.String()
	}
	b.WriteString("impl ok\n")
	for _, c := range cs {
		fi := c.FileInfo
		fmt.Fprintf(&b, "out %s %s %s %s 1 %s %s %d %d %d\n", xs(c.Source), xs(c.Destination), xs(c.Type), xs(c.Packager),
			xs(fi.Owner), xs(fi.Group), uint32(fi.Mode), fi.MTime.Unix(), fi.Size)
	}
	return b.String()
}

type c05Stats struct {
	cases       int
	distinct    map[string]struct{}
	nontrivial  int
	types       map[string]int
	classes     map[string]int
	sizes       map[int]int
	unstable    int
	pathCases   int
	samples     []string
}

func runC05Case(w *caseWriter, cs c05Case, st *c05Stats) {
	if len(cs.files) > 0 {
		writeExtraFiles(cs.files)
		defer func() {
			removeExtraFiles(cs.files)
			// and the directories made for them, deepest first, as far as they are empty
			for _, f := range cs.files {
				for d := filepath.Dir(f.Path); d != "." && d != "/" && d != "src"; d = filepath.Dir(d) {
					if os.Remove(d) != nil {
						break
					}
				}
			}
		}()
	}
	writeDesc(cs.id, descOfC05(cs))
	w.line("case %s", cs.id)
	w.line("umask %d", uint32(cs.umask))
	w.line("packager %s", xs(cs.packager))
	w.line("mtime %d", cs.mtime.Unix())
	w.line("noglob %d", b2i(cs.noGlob))
	ss := statSet{}
	var key strings.Builder
	fmt.Fprintf(&key, "%d|%s|%d|%d|", cs.umask, cs.packager, cs.mtime.Unix(), b2i(cs.noGlob))
	for _, e := range cs.entries {
		writeContentLine(w, "entry", e)
		writeOracle(w, e, cs.noGlob, ss)
		fmt.Fprintf(&key, "%s;", e.String())
		st.types[e.Type]++
	}
	var paths []string
	for p := range ss {
		paths = append(paths, p)
	}
	sort.Strings(paths)
	for _, p := range paths {
		if p == "" {
			continue
		}
		if info, err := os.Stat(p); err == nil {
			w.line("stat %s %d %d %d", xs(p), uint32(info.Mode()), info.ModTime().Unix(), info.Size())
		}
	}
	first := ""
	unstable := false
	for i := 0; i < 3; i++ {
		out, err := files.PrepareForPackager(cloneContents(cs.entries), cs.umask, cs.packager, cs.noGlob, cs.mtime)
		o := obsString(out, err)
		if i == 0 {
			first = o
			st.classes[classify(err)]++
		} else if o != first {
			unstable = true
		}
	}
	if unstable {
		st.unstable++
		w.line("unstable 1")
	}
	w.w.WriteString(first)
	w.line("end")
	st.cases++
	st.sizes[len(cs.entries)]++
	k := key.String()
	if _, ok := st.distinct[k]; !ok {
		st.distinct[k] = struct{}{}
		if len(cs.entries) >= 2 {
			st.nontrivial++
		}
		if len(st.samples) < 4 && len(cs.entries) >= 2 {
			st.samples = append(st.samples, cs.id+": "+k)
		}
	}
}

// ---- generators ----

type entrySpec struct {
	typ string
	src string
}

var c05Dsts = []string{"/a", "/a/", "/a/b", "/a/b/c", "/a-b", "etc/x", "/"}
var c05DstsMore = []string{"", "../x", "//a//./b/", "/a/b/..", "/usr/bin", "/a/b/c/", "a", "/etc/", "/a/e\u0301", "/a/\u00e9", "/etc", "/"}

var c05Kinds = []entrySpec{
	{"", "src/f1"},
	{files.TypeFile, "src/d"},
	{files.TypeConfig, "src/d/*"},
	{files.TypeDir, ""},
	{files.TypeSymlink, "target"},
	{files.TypeTree, "src/d"},
	{files.TypeRPMGhost, ""},
	// a source directory that is a symbolic link, written with and without the slash that makes the OS follow it
	{files.TypeTree, "src/lnkdir/"},
}

var c05KindsMore = []entrySpec{
	{files.TypeTree, "src/lnkdir"},
	{"", "src/lnkdir/"},
	{files.TypeConfigNoReplace, "src/f2"},
	{files.TypeConfigMissingOK, "src/g[1].txt"},
	{files.TypeRPMDoc, "src/f1"},
	{files.TypeRPMLicence, "src/f1"},
	{files.TypeRPMLicense, "src/f1"},
	{files.TypeRPMReadme, "src/f1"},
	{files.TypeImplicitDir, ""},
	{files.TypeDebChangelog, ""},
	{"bogus", "src/f1"},
	{files.TypeFile, "src/missing"},
	{files.TypeFile, "src/*/x"},
	{files.TypeFile, "src/**"},
	{files.TypeTree, "src/missing"},
	{files.TypeTree, "src"},
	{files.TypeSymlink, "src/f1"},
	{files.TypeDir, "src/e"},
	{files.TypeFile, "src/d/lnk"},
	{files.TypeFile, "src/{f1,f2}"},
	{files.TypeFile, "src/dangling"},
	{files.TypeFile, "src/k/conf*/*.cfg"},
	{files.TypeConfig, "src/k/conf*"},
	{files.TypeFile, "src/k/**/*.cfg"},
	{files.TypeFile, "src/k"},
	{files.TypeFile, "src/k/conf.d/**"},
	{files.TypeFile, "src/[dh]/x"},
	{"", "src/odd/*"},
	{files.TypeFile, "src/odd"},
	{files.TypeTree, "src/odd"},
	{files.TypeConfig, "src/odd/self"},
	{"", "src/pat/app[12].conf"},
	{"", "src/f1/"},
	{files.TypeConfig, "src/d/x/"},
	{files.TypeTree, "src/lnk2"},
	{files.TypeTree, "src/lnk2/"},
	{files.TypeConfig, "src/g[1].txt"},
	{"", ".*rc"},
	{files.TypeConfig, ".*"},
	{"", ".hidden/**"},
}

func mkEntry(k entrySpec, dst, pk string, fi int) *files.Content {
	c := &files.Content{Source: k.src, Destination: dst, Type: k.typ, Packager: pk}
	switch fi {
	case 1:
		c.FileInfo = &files.ContentFileInfo{Owner: "bob", Group: "staff", Mode: 0o4750, MTime: time.Unix(1500000000, 0).UTC()}
	case 2:
		c.FileInfo = &files.ContentFileInfo{Mode: 0o600}
	case 3:
		c.FileInfo = &files.ContentFileInfo{Owner: "alice"}
	case 4:
		// a mode whose decimal spelling (755) looks like an octal mode: a number like any other
		c.FileInfo = &files.ContentFileInfo{Mode: 0o1363}
	case 5:
		c.FileInfo = &files.ContentFileInfo{Mode: 0o1204, Group: "adm"}
	}
	return c
}

func genC05(tier string, seed int64, w *caseWriter, st *c05Stats) {
	rng := rand.New(rand.NewSource(seed))
	pkTags := []string{"", "deb", "rpm"}
	packagers := []string{"", "deb", "rpm", "apk"}
	fixedMT := time.Unix(1700000000, 0).UTC()
	n := 0
	emit := func(es []*files.Content, pk string, umask fs.FileMode, mt time.Time, noGlob bool, tag string) {
		n++
		runC05Case(w, c05Case{id: fmt.Sprintf("%s-%d", tag, n), entries: es, umask: umask, packager: pk, noGlob: noGlob, mtime: mt}, st)
	}
	// (a) bounded exhaustive: singles and pairs
	type ent struct {
		k   entrySpec
		dst string
		pk  string
		fi  int
	}
	var universe []ent
	dsts := c05Dsts
	if tier == "quick" {
		dsts = c05Dsts[:5]
	}
	for _, k := range c05Kinds {
		for _, d := range dsts {
			for _, pk := range pkTags[:2] {
				universe = append(universe, ent{k, d, pk, 0})
			}
		}
	}
	for _, a := range universe {
		for _, pk := range packagers[:3] {
			emit([]*files.Content{mkEntry(a.k, a.dst, a.pk, a.fi)}, pk, 0o022, fixedMT, false, "s")
		}
	}
	for _, a := range universe {
		for _, b := range universe {
			pk := packagers[rng.Intn(3)]
			emit([]*files.Content{mkEntry(a.k, a.dst, a.pk, a.fi), mkEntry(b.k, b.dst, b.pk, b.fi)}, pk, 0o022, fixedMT, false, "p")
		}
	}
	// forced: patterns beside a file of the pattern's own name, dot names in the working directory, packager tags with
	// punctuation - each alone and next to a plain file, for plain and punctuated packager names
	for _, e := range []struct {
		k   entrySpec
		dst string
	}{{entrySpec{"", "src/host"}, "/etc"}, {entrySpec{files.TypeConfig, "src/host/*"}, "/etc"}, {entrySpec{"", "src/hostroot"}, "/"},
		{entrySpec{"", "src/hostroot/**"}, "/"}, {entrySpec{"", "src/hostroot/var"}, "/var"}, {entrySpec{"", "src/nfc"}, "/opt/nfc"},
		{entrySpec{files.TypeTree, "src/nfc"}, "/opt/nfc"}, {entrySpec{"", "src/nfc/*"}, "/opt/nfc"}, {entrySpec{"", "src/f1"}, "/opt/e\u0301"}} {
		for _, pk := range []string{"", "deb", "rpm"} {
			emit([]*files.Content{mkEntry(e.k, e.dst, "", 0)}, pk, 0o022, fixedMT, false, "f")
			emit([]*files.Content{mkEntry(entrySpec{"", "src/f2"}, "/opt/\u00e9", "", 0), mkEntry(e.k, e.dst, "", 0)}, pk, 0o022, fixedMT, false, "f")
		}
	}
	for _, k := range []entrySpec{{"", "src/f1/"}, {files.TypeConfig, "src/d/x/"}, {files.TypeTree, "src/lnk2"}, {files.TypeTree, "src/lnk2/"},
		{"", "src/pat/app[12].conf"}, {files.TypeConfig, "src/g[1].txt"}, {"", ".*rc"}, {files.TypeConfig, ".*"}, {"", ".hidden/**"}, {"", "src/f1"}} {
		for _, d := range []string{"/a", "/a/", "/a/b"} {
			for _, tag := range []string{"", "termux.deb", "deb,rpm", "deb", "dpkg", "dnf", "pacman"} {
				for _, pk := range []string{"", "deb", "termux.deb", "rpm", "archlinux"} {
					emit([]*files.Content{mkEntry(k, d, tag, 0)}, pk, 0o022, fixedMT, false, "f")
					emit([]*files.Content{mkEntry(entrySpec{"", "src/f2"}, "/a/plain", "", 0), mkEntry(k, d, tag, 0)}, pk, 0o022, fixedMT, false, "f")
				}
			}
		}
	}
	// triples: seeded sample (quick) / larger sample (thorough)
	triples := 3000
	if tier != "quick" {
		triples = 60000
	}
	allKinds := append(append([]entrySpec{}, c05Kinds...), c05KindsMore...)
	allDsts := append(append([]string{}, c05Dsts...), c05DstsMore...)
	for i := 0; i < triples; i++ {
		var es []*files.Content
		for j := 0; j < 3; j++ {
			a := universe[rng.Intn(len(universe))]
			es = append(es, mkEntry(a.k, a.dst, a.pk, rng.Intn(6)))
		}
		emit(es, packagers[rng.Intn(len(packagers))], 0o022, fixedMT, false, "t")
	}
	// (c) random lists with the wide universe
	random := 4000
	if tier != "quick" {
		random = 80000
	}
	umasks := []fs.FileMode{0, 0o002, 0o022, 0o077}
	// (names with punctuation: a format an embedder registered, or a typo - one name, not a list)
	rpk := []string{"", "deb", "rpm", "apk", "ipk", "archlinux", "foo", "termux.deb", "deb,rpm", "rpm-deb", "dpkg", "dnf", "pacman", "opkg", "alpine", "arch"}
	for i := 0; i < random; i++ {
		ne := 1 + rng.Intn(6)
		var es []*files.Content
		for j := 0; j < ne; j++ {
			k := allKinds[rng.Intn(len(allKinds))]
			if rng.Intn(3) == 0 {
				k = c05Kinds[rng.Intn(len(c05Kinds))]
			}
			d := allDsts[rng.Intn(len(allDsts))]
			if rng.Intn(8) == 0 {
				d = randSpelling(rng, 1+rng.Intn(8))
			}
			es = append(es, mkEntry(k, d, rpk[rng.Intn(len(rpk))%(1+rng.Intn(len(rpk)))], rng.Intn(6)))
		}
		mt := fixedMT
		if rng.Intn(4) == 0 {
			mt = time.Time{}
		}
		emit(es, rpk[rng.Intn(len(rpk))], umasks[rng.Intn(len(umasks))], mt, rng.Intn(10) == 0, "r")
	}
	// (b') sortedParents through the public API: one symlink at every spelling
	maxLen := 6
	if tier != "quick" {
		maxLen = 8
	}
	forEachSpelling(maxLen, func(s string) {
		emit([]*files.Content{{Source: "t", Destination: s, Type: files.TypeSymlink}}, "", 0o022, fixedMT, false, "sp")
	})
}

var spellAlphabet = []byte{'/', '.', 'a'}

// the same entries planned again after the source tree changed: a plan is a function of the content list and the
// file system as it is NOW (an expansion remembered from an earlier call shows here)
func genC05ChangingTree(w *caseWriter, st *c05Stats) {
	fixedMT := time.Unix(1700000000, 0).UTC()
	f := func(p, body string) extraFile {
		return extraFile{Path: p, Hex: hex.EncodeToString([]byte(body)), Mode: 0o644, MTime: 1650000000}
	}
	entries := func() []*files.Content {
		return []*files.Content{
			{Source: "src/memo/*.conf", Destination: "/etc/memo/", Type: files.TypeConfig},
			{Source: "src/memo/**/*.txt", Destination: "/usr/share/memo"},
			{Source: "src/memo", Destination: "/opt/memo", Type: files.TypeTree},
		}
	}
	states := [][]extraFile{
		{f("src/memo/a.conf", "a"), f("src/memo/deep/one/x.txt", "x")},
		{f("src/memo/a.conf", "a"), f("src/memo/b.conf", "b"), f("src/memo/deep/one/x.txt", "x"), f("src/memo/deep/two/y.txt", "y")},
		{f("src/memo/b.conf", "b"), f("src/memo/deep/two/y.txt", "y")},
		{f("src/memo/a.conf", "a"), f("src/memo/deep/one/x.txt", "x")},
	}
	for i, fs := range states {
		for _, pk := range []string{"deb", "rpm"} {
			runC05Case(w, c05Case{id: fmt.Sprintf("changing-tree-%d-%s", i, pk), entries: entries(), umask: 0o022, packager: pk, mtime: fixedMT, files: fs}, st)
		}
	}
}

// systemPaths: every absolute path that files/fs.go of the repository under test spells in a string literal - the
// tables of directories "owned by the file system" (read from the source, so a table that is split, merged or
// re-ordered is still covered entry by entry)
func systemPaths() []string {
	fset := token.NewFileSet()
	f, err := parser.ParseFile(fset, filepath.Join(repoDir(), "files", "fs.go"), nil, 0)
	if err != nil {
		return nil
	}
	seen := map[string]bool{}
	var out []string
	ast.Inspect(f, func(n ast.Node) bool {
		if l, ok := n.(*ast.BasicLit); ok && l.Kind == token.STRING {
			if v, err := strconv.Unquote(l.Value); err == nil && strings.HasPrefix(v, "/") && !seen[v] && !strings.ContainsAny(v, "*?[ ") {
				seen[v] = true
				out = append(out, v)
			}
		}
		return true
	})
	sort.Strings(out)
	return out
}

// trees that replicate system directories: every directory the repository's tables name must come out as an
// IMPLIED directory (so that two packages, or two trees, can share it), every other one as a declared directory
func genC05SystemTrees(w *caseWriter, st *c05Stats) {
	fixedMT := time.Unix(1700000000, 0).UTC()
	paths := systemPaths()
	if len(paths) == 0 {
		return
	}
	var all []extraFile
	for _, p := range paths {
		all = append(all, extraFile{Path: "src/sysall" + p + "/.keep", Hex: "", Mode: 0o644, MTime: 1650000300})
	}
	all = append(all, extraFile{Path: "src/sysall/opt/vendor/app/bin/tool", Hex: "74", Mode: 0o755, MTime: 1650000300},
		extraFile{Path: "src/sysall/etc/vendor.d/app.conf", Hex: "63", Mode: 0o644, MTime: 1650000300})
	for _, pk := range []string{"", "rpm", "deb"} {
		runC05Case(w, c05Case{id: "system-tree-all-" + pk, entries: []*files.Content{{Source: "src/sysall", Destination: "/", Type: files.TypeTree}},
			umask: 0o022, packager: pk, mtime: fixedMT, files: all}, st)
	}
	// two trees that meet in one system directory, and a declared directory before / after a tree that implies it;
	// one case per table entry that is at most three levels deep (quick enough, and covers both tables)
	n := 0
	for _, p := range paths {
		if strings.Count(p, "/") > 3 {
			continue
		}
		n++
		one := []extraFile{{Path: "src/sysone" + p + "/one.conf", Hex: "31", Mode: 0o644, MTime: 1650000301}}
		two := []extraFile{{Path: "src/systwo" + p + "/two.conf", Hex: "32", Mode: 0o644, MTime: 1650000302}}
		both := append(append([]extraFile{}, one...), two...)
		pk := []string{"rpm", "deb", ""}[n%3]
		runC05Case(w, c05Case{id: fmt.Sprintf("system-two-trees-%d", n), entries: []*files.Content{
			{Source: "src/sysone", Destination: "/", Type: files.TypeTree}, {Source: "src/systwo", Destination: "/", Type: files.TypeTree}},
			umask: 0o022, packager: pk, mtime: fixedMT, files: both}, st)
		if n%4 == 0 {
			runC05Case(w, c05Case{id: fmt.Sprintf("system-dir-after-tree-%d", n), entries: []*files.Content{
				{Source: "src/sysone", Destination: "/", Type: files.TypeTree}, {Destination: p, Type: files.TypeDir}},
				umask: 0o022, packager: pk, mtime: fixedMT, files: one}, st)
			runC05Case(w, c05Case{id: fmt.Sprintf("system-dir-before-tree-%d", n), entries: []*files.Content{
				{Destination: p, Type: files.TypeDir}, {Source: "src/sysone", Destination: "/", Type: files.TypeTree}},
				umask: 0o022, packager: pk, mtime: fixedMT, files: one}, st)
		}
	}
}

func randSpelling(rng *rand.Rand, n int) string {
	b := make([]byte, n)
	for i := range b {
		b[i] = spellAlphabet[rng.Intn(3)]
	}
	return string(b)
}

func forEachSpelling(maxLen int, f func(string)) {
	var rec func(prefix []byte, n int)
	rec = func(prefix []byte, n int) {
		f(string(prefix))
		if n == 0 {
			return
		}
		for _, c := range spellAlphabet {
			rec(append(prefix, c), n-1)
		}
	}
	rec(nil, maxLen)
}

func genPathCases(tier string, w *caseWriter, st *c05Stats) {
	maxLen := 7
	if tier != "quick" {
		maxLen = 9
	}
	forEachSpelling(maxLen, func(s string) {
		w.line("path %s %s %s %s %s %s", xs(s), xs(files.NormalizeAbsoluteFilePath(s)), xs(files.NormalizeAbsoluteDirPath(s)),
			xs(files.AsRelativePath(s)), xs(files.AsExplicitRelativePath(s)), xs(files.ToNixPath(s)))
		st.pathCases++
	})
	// a few spellings with other bytes
	for _, s := range []string{"/usr/bin/", "a b/c", "ä/ö", "/a/../../b", "./x", "x/.", "-/-", "..a/b..", "/.../x"} {
		w.line("path %s %s %s %s %s %s", xs(s), xs(files.NormalizeAbsoluteFilePath(s)), xs(files.NormalizeAbsoluteDirPath(s)),
			xs(files.AsRelativePath(s)), xs(files.AsExplicitRelativePath(s)), xs(files.ToNixPath(s)))
		st.pathCases++
	}
}

func cmdC05(tier string, seed int64, out string, statsOut string, replay string) {
	work, err := os.MkdirTemp("", "verif-c05-")
	must(err)
	defer os.RemoveAll(work)
	materialise(work, baseTree)
	must(os.Chdir(work))
	w := newCaseWriter(out)
	st := &c05Stats{distinct: map[string]struct{}{}, types: map[string]int{}, classes: map[string]int{}, sizes: map[int]int{}}
	if replay != "" {
		replayC05(replay, w, st)
	} else {
		runCorpus("C05", w, st)
		genPathCases(tier, w, st)
		genC05ChangingTree(w, st)
		genC05SystemTrees(w, st)
		genC05(tier, seed, w, st)
	}
	w.close()
	writeJSON(statsOut, map[string]any{
		"cases": st.cases, "distinct": len(st.distinct), "distinct_nontrivial": st.nontrivial,
		"types": st.types, "classes": st.classes, "sizes": st.sizes, "unstable": st.unstable,
		"path_cases": st.pathCases, "samples": st.samples,
	})
}
