package main

import (
	"bufio"
	"io"

	"github.com/goreleaser/nfpm/v2/deprecation"
	"encoding/json"
	"flag"
	"fmt"
	"os"
	"path/filepath"
	"sort"
)

var (
	verifDir   string
	descWriter *bufio.Writer
)

func writeJSON(path string, v any) {
	b, err := json.MarshalIndent(v, "", " ")
	must(err)
	must(os.WriteFile(path, b, 0o644))
}

// writeDesc records the replayable descriptor of a case (one JSON object per line)
func writeDesc(id string, v any) {
	if descWriter == nil {
		return
	}
	b, err := json.Marshal(map[string]any{"id": id, "case": v})
	must(err)
	descWriter.Write(b)
	descWriter.WriteByte('\n')
}

func corpusFiles(prop string) []string {
	fs, _ := filepath.Glob(filepath.Join(verifDir, "corpus", prop, "*.json"))
	sort.Strings(fs)
	return fs
}

func main() {
	// variables of the build host that tools of the target distributions read - none of them is a setting of nfpm
	for k, v := range map[string]string{"PACKAGER": "Env Packager <env@example.com>", "DEBEMAIL": "env@example.com", "DEBFULLNAME": "Env Fullname",
		"EMAIL": "env-mail@example.com", "NAME": "Env Name", "LOGNAME": "envlogin", "USER": "envuser", "HOSTNAME": "env-host.example"} {
		if os.Getenv("VERIF_KEEP_ENV") == "" {
			os.Setenv(k, v)
		}
	}
	if len(os.Args) < 2 {
		fmt.Fprintln(os.Stderr, "usage: harness <property> [flags]")
		os.Exit(2)
	}
	prop := os.Args[1]
	if prop == "C12ONE" {
		// the concurrent child is a program that configures nothing about the library (its notices go to the standard
		// error stream, next to the race detector's reports)
		cmdC12One(os.Args[2], os.Args[3])
		return
	}
	deprecation.Noticer = io.Discard
	if prop == "OP" {
		// one operation on a freshly parsed configuration in a process of its own: harness OP <yaml file> <operation>
		doc, err := os.ReadFile(os.Args[2])
		must(err)
		cfg, err := parseDoc(string(doc))
		must(err)
		fmt.Print(runOp(cfg, os.Args[3]))
		return
	}
	fl := flag.NewFlagSet(prop, flag.ExitOnError)
	tier := fl.String("tier", "quick", "quick|thorough")
	seed := fl.Int64("seed", 1, "PRNG seed")
	out := fl.String("out", "cases.txt", "case file for the model driver")
	stats := fl.String("stats", "stats.json", "generator statistics")
	desc := fl.String("desc", "", "replayable case descriptors (jsonl)")
	replay := fl.String("replay", "", "run only the descriptors in this jsonl file")
	vd := fl.String("verif", "/verif", "verification directory (corpus)")
	must(fl.Parse(os.Args[2:]))
	verifDir = *vd
	abs := func(p string) string {
		if p == "" {
			return p
		}
		a, err := filepath.Abs(p)
		must(err)
		return a
	}
	*out, *stats, *desc, *replay = abs(*out), abs(*stats), abs(*desc), abs(*replay)
	if prop == "GEN" {
		cmdGen(*out)
		return
	}
	if *desc != "" {
		f, err := os.Create(*desc)
		must(err)
		defer f.Close()
		descWriter = bufio.NewWriterSize(f, 1<<20)
		defer descWriter.Flush()
	}
	switch prop {
	case "GEN":
		cmdGen(*out)
	case "C05":
		cmdC05(*tier, *seed, *out, *stats, *replay)
	case "C06":
		cmdC06(*tier, *seed, *out, *stats, *replay)
	case "C07":
		cmdC07(*tier, *seed, *out, *stats, *replay)
	case "C10":
		cmdC10(*tier, *seed, *out, *stats, *replay)
	case "C11":
		cmdC11(*tier, *seed, *out, *stats, *replay)
	case "C12":
		cmdC12(*tier, *seed, *out, *stats, *replay)
	case "C13":
		cmdC13(*tier, *seed, *out, *stats, *replay)
	case "C16", "C17":
		cmdC16(prop, *tier, *seed, *out, *stats, *replay)
	case "C15":
		cmdC15(*tier, *seed, *out, *stats, *replay)
	case "C14":
		cmdC14(*tier, *seed, *out, *stats, *replay)
	case "PKG", "C01", "C02", "C03", "C04", "C08", "C09":
		cmdPkg(prop, *tier, *seed, *out, *stats, *replay)
	default:
		fmt.Fprintln(os.Stderr, "unknown property", prop)
		os.Exit(2)
	}
}
