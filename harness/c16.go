package main

// C16 / C17 cases: documents for the strict parser (every key path of the reflected configuration type, with
// injected misspellings at every level), environment expansion of every string-valued path, and the same
// documents as trees for the schema validator of the model.

import (
	"encoding/json"
	"fmt"
	"io"
	"math/rand"
	"os"
	"path/filepath"
	"reflect"
	"sort"
	"strings"
	"time"

	"github.com/goreleaser/nfpm/v2"
	"gopkg.in/yaml.v3"
)

type cfgStats struct {
	cases, strictOK, strictRejected, expandCases int
	fileParses, tabbed                           int
	distinct                                     map[string]struct{}
	samples                                      []string
	positions                                    int
}

// sampleValue builds a value of type t in which every field, at every level, is set
func sampleValue(t reflect.Type, tag string, depth int) reflect.Value {
	v := reflect.New(t).Elem()
	switch t.Kind() {
	case reflect.String:
		v.SetString("v" + tag)
	case reflect.Bool:
		v.SetBool(true)
	case reflect.Int, reflect.Int64, reflect.Int32:
		v.SetInt(7)
	case reflect.Uint32, reflect.Uint, reflect.Uint64:
		v.SetUint(420)
	case reflect.Ptr:
		p := reflect.New(t.Elem())
		p.Elem().Set(sampleValue(t.Elem(), tag, depth+1))
		v.Set(p)
	case reflect.Slice:
		s := reflect.MakeSlice(t, 1, 1)
		s.Index(0).Set(sampleValue(t.Elem(), tag+"0", depth+1))
		v.Set(s)
	case reflect.Map:
		m := reflect.MakeMap(t)
		key := "deb"
		if t.Elem().Kind() == reflect.String {
			key = "Some-Field"
		}
		m.SetMapIndex(reflect.ValueOf(key), sampleValue(t.Elem(), tag+"m", depth+1))
		v.Set(m)
	case reflect.Struct:
		if t.String() == "time.Time" {
			v.Set(reflect.ValueOf(time.Unix(1700000000, 0).UTC()))
			return v
		}
		for i := 0; i < t.NumField(); i++ {
			f := t.Field(i)
			if !f.IsExported() || f.Type.Kind() == reflect.Func {
				continue
			}
			if y := f.Tag.Get("yaml"); strings.HasPrefix(y, "-") {
				continue
			}
			v.Field(i).Set(sampleValue(f.Type, tag+f.Name[:1], depth+1))
		}
	}
	return v
}

func fullDocument() string {
	v := sampleValue(reflect.TypeOf(nfpm.Config{}), "", 0)
	cfg := v.Interface().(nfpm.Config)
	cfg.Version = "1.2.3"
	cfg.Arch = "amd64"
	cfg.VersionSchema = "semver"
	// enumerated settings get values the packagers accept
	fix := func(o *nfpm.Overridables) {
		for _, c := range o.Contents {
			c.Type = "config"
		}
		o.RPM.Compression, o.Deb.Compression = "gzip", "xz"
		o.Deb.Signature.Method, o.Deb.Signature.Type = "debsign", "origin"
	}
	fix(&cfg.Overridables)
	for _, o := range cfg.Overrides {
		fix(o)
	}
	return marshalConfig(&cfg)
}

// tokens of a YAML node: M n (k node)* | S n node* | V scalar
func docTokens(n *yaml.Node, out *[]string) {
	switch n.Kind {
	case yaml.DocumentNode:
		if len(n.Content) == 0 {
			*out = append(*out, "V", "x")
			return
		}
		docTokens(n.Content[0], out)
	case yaml.MappingNode:
		*out = append(*out, "M", fmt.Sprint(len(n.Content)/2))
		for i := 0; i+1 < len(n.Content); i += 2 {
			*out = append(*out, xs(n.Content[i].Value))
			docTokens(n.Content[i+1], out)
		}
	case yaml.SequenceNode:
		*out = append(*out, "S", fmt.Sprint(len(n.Content)))
		for _, c := range n.Content {
			docTokens(c, out)
		}
	case yaml.AliasNode:
		docTokens(n.Alias, out)
	default:
		*out = append(*out, "V", xs(n.Value))
	}
}

// every mapping node of a document, in document order
func mappingNodes(n *yaml.Node, path string, out *[]struct {
	n    *yaml.Node
	path string
}) {
	switch n.Kind {
	case yaml.DocumentNode:
		for _, c := range n.Content {
			mappingNodes(c, path, out)
		}
	case yaml.MappingNode:
		*out = append(*out, struct {
			n    *yaml.Node
			path string
		}{n, path})
		for i := 0; i+1 < len(n.Content); i += 2 {
			mappingNodes(n.Content[i+1], path+"/"+n.Content[i].Value, out)
		}
	case yaml.SequenceNode:
		for _, c := range n.Content {
			mappingNodes(c, path+"/[]", out)
		}
	}
}

func parseClass(doc string, env map[string]string) (string, *nfpm.Config) {
	var cfg nfpm.Config
	var err error
	func() {
		defer func() {
			if r := recover(); r != nil {
				err = fmt.Errorf("panic: %v", r)
			}
		}()
		cfg, err = nfpm.ParseWithEnvMapping(strings.NewReader(doc), func(k string) string { return env[k] })
	}()
	switch {
	case err == nil:
		return "ok", &cfg
	case strings.HasPrefix(err.Error(), "panic"):
		return "panic", nil
	case strings.Contains(err.Error(), "not found in type"):
		return "unknownkey", nil
	default:
		return "other", nil
	}
}

// asJSON renders a YAML document as JSON (empty when it has no JSON rendering: non-string keys, duplicate keys)
func asJSON(doc string) string {
	var v any
	if err := yaml.Unmarshal([]byte(doc), &v); err != nil {
		return ""
	}
	b, err := json.MarshalIndent(v, "", "\t")
	if err != nil {
		return ""
	}
	return string(b)
}

func parseFileClass(path string) string {
	var err error
	func() {
		defer func() {
			if r := recover(); r != nil {
				err = fmt.Errorf("panic: %v", r)
			}
		}()
		_, err = nfpm.ParseFileWithEnvMapping(path, func(string) string { return "" })
	}()
	switch {
	case err == nil:
		return "ok"
	case strings.HasPrefix(err.Error(), "panic"):
		return "panic"
	case strings.Contains(err.Error(), "not found in type"):
		return "unknownkey"
	default:
		return "other"
	}
}

func emitStrictCase(w *caseWriter, id, doc string, st *cfgStats, what string) {
	var root yaml.Node
	if err := yaml.Unmarshal([]byte(doc), &root); err != nil {
		return
	}
	cls, _ := parseClass(doc, nil)
	var toks []string
	docTokens(&root, &toks)
	w.line("strict %s %s %s", id, cls, strings.Join(toks, " "))
	writeDesc(id, map[string]string{"kind": "strict", "yaml": doc, "what": what})
	st.cases++
	// the same document read from a file, under a .yaml name and - rendered as JSON, which is YAML - under a .json
	// name: which door a document comes through does not change which keys are accepted
	for _, v := range []struct{ suffix, name, body string }{{"-from-yaml-file", "nfpm.yaml", doc}, {"-from-json-file", "nfpm.json", asJSON(doc)}} {
		if v.body == "" {
			continue
		}
		dir, err := os.MkdirTemp("", "verif-c16-")
		must(err)
		path := filepath.Join(dir, v.name)
		must(os.WriteFile(path, []byte(v.body), 0o644))
		c2 := parseFileClass(path)
		os.RemoveAll(dir)
		if c2 != cls {
			w.line("strict %s %s %s", id+v.suffix, c2, strings.Join(toks, " "))
			writeDesc(id+v.suffix, map[string]string{"kind": "strict", "yaml": v.body, "what": what + " (read with ParseFile from " + v.name + ")", "file_name": v.name})
			st.cases++
		}
		st.fileParses++
	}
	if cls == "ok" {
		st.strictOK++
	} else {
		st.strictRejected++
	}
	h := hexsum(sha256b, []byte(doc))
	if _, ok := st.distinct[h]; !ok {
		st.distinct[h] = struct{}{}
	}
}

// emitTabbedCase: the same keys in a text whose indentation uses tabs (one for every two blanks) in one block, or in all of
// them. YAML does not allow that, so the parser may refuse the text for that reason - what it may not do is accept it and
// drop a key it does not define. The tokens are those of the document as it was before the tabs went in.
func emitTabbedCase(w *caseWriter, id, doc string, st *cfgStats, what string) {
	var root yaml.Node
	if err := yaml.Unmarshal([]byte(doc), &root); err != nil {
		return
	}
	var toks []string
	docTokens(&root, &toks)
	lines := strings.Split(doc, "\n")
	tab := func(l string) string {
		n := 0
		for strings.HasPrefix(l[n:], "  ") {
			n += 2
		}
		return strings.Repeat("\t", n/2) + l[n:]
	}
	variants := map[string]string{}
	all := make([]string, len(lines))
	firstDone := false
	one := append([]string{}, lines...)
	for i, l := range lines {
		all[i] = tab(l)
		if !firstDone && strings.HasPrefix(l, "  ") && !strings.HasPrefix(strings.TrimSpace(l), "-") {
			one[i] = tab(l)
			firstDone = true
		}
	}
	variants["-all"] = strings.Join(all, "\n")
	variants["-one"] = strings.Join(one, "\n")
	for _, suffix := range []string{"-all", "-one"} {
		text := variants[suffix]
		if text == doc {
			continue
		}
		cls, _ := parseClass(text, nil)
		w.line("strict %s %s %s", id+suffix, cls, strings.Join(toks, " "))
		writeDesc(id+suffix, map[string]string{"kind": "strict", "yaml": text, "what": what})
		st.cases++
		st.tabbed++
	}
}

// the document with one unknown key added to the k-th mapping node
func injectUnknown(doc string, k int, key string) (string, string, bool) {
	var root yaml.Node
	if err := yaml.Unmarshal([]byte(doc), &root); err != nil {
		return "", "", false
	}
	var ms []struct {
		n    *yaml.Node
		path string
	}
	mappingNodes(&root, "", &ms)
	if k >= len(ms) {
		return "", "", false
	}
	m := ms[k]
	m.n.Content = append(m.n.Content, &yaml.Node{Kind: yaml.ScalarNode, Value: key, Tag: "!!str"}, &yaml.Node{Kind: yaml.ScalarNode, Value: "1", Tag: "!!int"})
	b, err := yaml.Marshal(&root)
	if err != nil {
		return "", "", false
	}
	return string(b), m.path, true
}

// one-edit misspelling of an existing key of the k-th mapping node
func misspellKey(doc string, k int, rng *rand.Rand) (string, string, bool) {
	var root yaml.Node
	if err := yaml.Unmarshal([]byte(doc), &root); err != nil {
		return "", "", false
	}
	var ms []struct {
		n    *yaml.Node
		path string
	}
	mappingNodes(&root, "", &ms)
	if k >= len(ms) || len(ms[k].n.Content) == 0 {
		return "", "", false
	}
	m := ms[k]
	i := 2 * rng.Intn(len(m.n.Content)/2)
	old := m.n.Content[i].Value
	if rng.Intn(2) == 0 && old != "" && strings.ToUpper(old[:1]) != old[:1] {
		// the same name in another letter case is another name
		m.n.Content[i].Value = strings.ToUpper(old[:1]) + old[1:]
	} else {
		m.n.Content[i].Value = old + "x"
	}
	b, err := yaml.Marshal(&root)
	if err != nil {
		return "", "", false
	}
	return string(b), m.path + "/" + old, true
}

// ---- environment expansion ----

// string-valued leaves of a parsed config by yaml path (slices as path/[i])
func stringLeaves(v reflect.Value, path string, out map[string]string) {
	switch v.Kind() {
	case reflect.String:
		out[path] = v.String()
	case reflect.Bool:
		// the opt-in flag of a content entry, recorded next to its src and dst
		if strings.HasSuffix(path, "/expand") && v.Bool() {
			base := strings.TrimSuffix(path, "/expand")
			out[base+"/src!expand"] = "1"
			out[base+"/dst!expand"] = "1"
		}
	case reflect.Ptr:
		if !v.IsNil() {
			stringLeaves(v.Elem(), path, out)
		}
	case reflect.Slice:
		out[path+"/#"] = fmt.Sprint(v.Len())
		for i := 0; i < v.Len(); i++ {
			stringLeaves(v.Index(i), fmt.Sprintf("%s/[%d]", path, i), out)
		}
	case reflect.Map:
		keys := v.MapKeys()
		sort.Slice(keys, func(i, j int) bool { return keys[i].String() < keys[j].String() })
		for _, k := range keys {
			stringLeaves(v.MapIndex(k), path+"/"+k.String(), out)
		}
	case reflect.Struct:
		if v.Type().String() == "time.Time" {
			return
		}
		for i := 0; i < v.NumField(); i++ {
			f := v.Type().Field(i)
			if !f.IsExported() || f.Type.Kind() == reflect.Func {
				continue
			}
			name, flags := tagParts(f.Tag.Get("yaml"))
			p := path + "/" + name
			if flags["inline"] || (name == "" && f.Anonymous) {
				p = path
			}
			if name == "-" {
				p = path + "/-" + f.Name
			}
			stringLeaves(v.Field(i), p, out)
		}
	}
}

const expandDoc = `name: "N${VX}"
arch: "A${VX}"
platform: "P${VX}"
version: "${VVER}"
release: "R${VX}"
prerelease: "PR${VX}"
version_metadata: "M${VX}"
epoch: "E${VX}"
section: "S${VX}"
priority: "PRI${VX}"
maintainer: "MA${VX}"
description: "D${VX}"
vendor: "V${VX}"
homepage: "H${VX}"
license: "L${VX}"
changelog: "C${VX}"
replaces: ["${VX}", " ${VEMPTY} ", "plain", "  padded  ", "$VX$VY"]
provides: ["${VX}", "${VEMPTY}"]
depends: ["${VX}", "${VEMPTY}", "a${VEMPTY}b"]
recommends: ["${VX}"]
suggests: ["${VX}"]
conflicts: ["${VX}"]
contents:
  - src: "src/${VX}"
    dst: "/dst/${VX}"
    expand: true
  - src: "src/${VX}"
    dst: "/dst/${VX}"
  - src: " ${VX} "
    dst: " /d${VEMPTY} "
    expand: true
    file_info:
      owner: "O${VX}"
      group: "G${VX}"
scripts:
  preinstall: "s${VX}"
rpm:
  arch: "ra${VX}"
  group: "rg${VX}"
  summary: "rs${VX}"
  packager: "rp${VX}"
  buildhost: "rb${VX}"
  compression: "rc${VX}"
  prefixes: ["${VX}"]
  signature:
    key_file: "rk${VX}"
    key_id: "ri${VX}"
  scripts:
    pretrans: "rs${VX}"
deb:
  arch: "da${VX}"
  compression: "dc${VX}"
  breaks: ["${VX}"]
  predepends: ["${VX}", "${VEMPTY}"]
  fields:
    Bugs: "f${VX}"
    Plain: "no dollar"
  signature:
    key_file: "dk${VX}"
    key_id: "di${VX}"
    method: "dm${VX}"
    type: "dt${VX}"
    signer: "ds${VX}"
  triggers:
    interest: ["${VX}"]
apk:
  arch: "aa${VX}"
  signature:
    key_file: "ak${VX}"
    key_id: "ai${VX}"
    key_name: "an${VX}"
archlinux:
  pkgbase: "lb${VX}"
  arch: "la${VX}"
  packager: "lp${VX}"
ipk:
  arch: "ia${VX}"
  abi_version: "iv${VX}"
  predepends: ["${VX}"]
  tags: ["${VX}"]
  fields:
    Source: "if${VX}"
overrides:
  deb:
    depends: ["${VX}", "${VEMPTY}"]
    conflicts: ["${VX}"]
    replaces: ["${VX}"]
    recommends: ["${VX}"]
    provides: ["${VX}"]
    suggests: ["${VX}"]
    contents:
      - src: "o${VX}"
        dst: "/o${VX}"
        expand: true
      - src: "o${VX}"
        dst: "/p${VX}"
    scripts:
      postinstall: "os${VX}"
    deb:
      predepends: ["${VX}"]
`

// withoutPackagers runs f with the packager registry empty (a library user that parses before importing any packager)
func withoutPackagers(f func()) {
	saved := map[string]nfpm.Packager{}
	for _, name := range nfpm.Enumerate() {
		if p, err := nfpm.Get(name); err == nil {
			saved[name] = p
		}
	}
	nfpm.ClearPackagers()
	defer func() {
		for n, p := range saved {
			nfpm.RegisterPackager(n, p)
		}
	}()
	f()
}

// parseVia: how the expansion cases get their document parsed (default: from a reader)
var parseVia = parseClass

// parseFromFileWithSourcesBesideIt: the document read with ParseFile from a directory that is not the working directory
// and that holds, beside the configuration file, a file at every relative source path the configuration names (after
// expansion): where a document comes from and what lies next to it changes nothing about its values
func parseFromFileWithSourcesBesideIt(doc string, env map[string]string) (string, *nfpm.Config) {
	_, ref := parseClass(doc, env)
	dir, err := os.MkdirTemp("", "verif-c16-beside-")
	must(err)
	defer os.RemoveAll(dir)
	cfgdir := filepath.Join(dir, "project", "packaging")
	must(os.MkdirAll(cfgdir, 0o755))
	if ref != nil {
		var srcs []string
		for _, c := range ref.Contents {
			srcs = append(srcs, c.Source)
		}
		for _, o := range ref.Overrides {
			if o != nil {
				for _, c := range o.Contents {
					srcs = append(srcs, c.Source)
				}
			}
		}
		for _, sp := range srcs {
			sp = strings.TrimSpace(sp)
			if sp == "" || filepath.IsAbs(sp) || strings.ContainsAny(sp, "*?[{$~") || strings.HasPrefix(sp, "..") {
				continue
			}
			p := filepath.Join(cfgdir, sp)
			if os.MkdirAll(filepath.Dir(p), 0o755) == nil {
				os.WriteFile(p, []byte("beside the configuration file\n"), 0o644)
			}
		}
	}
	path := filepath.Join(cfgdir, "nfpm.yaml")
	must(os.WriteFile(path, []byte(doc), 0o644))
	var cfg nfpm.Config
	func() {
		defer func() {
			if r := recover(); r != nil {
				err = fmt.Errorf("panic: %v", r)
			}
		}()
		cfg, err = nfpm.ParseFileWithEnvMapping(path, func(k string) string { return env[k] })
	}()
	switch {
	case err == nil:
		return "ok", &cfg
	case strings.HasPrefix(err.Error(), "panic"):
		return "panic", nil
	case strings.Contains(err.Error(), "not found in type"):
		return "unknownkey", nil
	default:
		return "other", nil
	}
}

// what a document expands to does not depend on which packagers happen to be registered while it is parsed
func emitExpandCase(w *caseWriter, id string, doc string, env map[string]string, st *cfgStats) {
	first := emitExpandCaseWith(w, id, doc, env, st, func(f func()) { f() }, "")
	parseVia = parseFromFileWithSourcesBesideIt
	emitExpandCaseWith(w, id+"-from-a-file-with-the-sources-beside-it", doc, env, st, func(f func()) { f() }, first)
	parseVia = parseClass
	withoutPackagers(func() {
		emitExpandCaseWith(w, id+"-parsed-with-no-packager-registered", doc, env, st, func(f func()) { f() }, first)
	})
}

// emits the case unless its outcome equals [skipIfEqual]; returns a rendering of the outcome
func emitExpandCaseWith(w *caseWriter, id string, doc string, env map[string]string, st *cfgStats, run func(func()), skipIfEqual string) string {
	// the raw values: decode without the expansion pass (plain yaml.v3, same strictness is irrelevant here)
	var raw nfpm.Config
	if err := yaml.Unmarshal([]byte(doc), &raw); err != nil {
		return ""
	}
	cls, cfg := parseVia(doc, env)
	outcome := cls
	if cfg != nil {
		l := map[string]string{}
		stringLeaves(reflect.ValueOf(*cfg), "", l)
		var ks []string
		for k := range l {
			ks = append(ks, k)
		}
		sort.Strings(ks)
		for _, k := range ks {
			outcome += "\x00" + k + "\x01" + l[k]
		}
	}
	if skipIfEqual != "" && outcome == skipIfEqual {
		return outcome
	}
	w.line("expand %s %s", id, cls)
	var ks []string
	for k := range env {
		ks = append(ks, k)
	}
	sort.Strings(ks)
	for _, k := range ks {
		w.line("env %s %s", xs(k), xs(env[k]))
	}
	rawLeaves := map[string]string{}
	stringLeaves(reflect.ValueOf(raw), "", rawLeaves)
	var ps []string
	for p := range rawLeaves {
		ps = append(ps, p)
	}
	sort.Strings(ps)
	for _, p := range ps {
		w.line("rawleaf %s %s", xs(p), xs(rawLeaves[p]))
	}
	if cfg != nil {
		leaves := map[string]string{}
		stringLeaves(reflect.ValueOf(*cfg), "", leaves)
		ps = ps[:0]
		for p := range leaves {
			ps = append(ps, p)
		}
		sort.Strings(ps)
		for _, p := range ps {
			w.line("leaf %s %s", xs(p), xs(leaves[p]))
		}
	}
	w.line("expandend")
	writeDesc(id, map[string]any{"kind": "expand", "yaml": doc, "env": env})
	st.cases++
	st.expandCases++
	return outcome
}

func cmdC16(prop, tier string, seed int64, out, statsOut, replay string) {
	w := newCaseWriter(out)
	st := &cfgStats{distinct: map[string]struct{}{}}
	rng := rand.New(rand.NewSource(seed))
	full := fullDocument()
	st.samples = append(st.samples, "full document with every key of the reflected type set:\n"+full[:min(len(full), 1500)])
	emitStrictCase(w, "full", full, st, "every key set")
	// exhaustive: an unknown key and a misspelt key at every mapping node of the full document
	for k := 0; ; k++ {
		d, path, ok := injectUnknown(full, k, "zzz_unknown")
		if !ok {
			st.positions = k
			break
		}
		emitStrictCase(w, fmt.Sprintf("inj-%d", k), d, st, "unknown key added below "+path)
		emitTabbedCase(w, fmt.Sprintf("inj-%d-tabs", k), d, st, "unknown key added below "+path+"; the document indented with tabs")
		if d2, p2, ok := misspellKey(full, k, rng); ok {
			emitStrictCase(w, fmt.Sprintf("mis-%d", k), d2, st, "misspelt key "+p2)
		}
	}
	// the keys an older configuration format had are unknown keys like any other, at the top level and below an override block
	for ki, key := range []string{"files", "config_files", "symlinks", "empty_folders", "bindir", "replacements"} {
		for pos := 0; pos < 2; pos++ {
			base := "name: legacy\narch: amd64\nversion: 1.0.0\noverrides:\n  deb:\n    depends: [d]\n"
			doc := base + key + ":\n  a: b\n"
			if pos == 1 {
				doc = base + "    " + key + ":\n      a: b\n"
			}
			emitStrictCase(w, fmt.Sprintf("legacy-key-%d-%d", ki, pos), doc, st, "a key of the v1 format")
		}
	}
	// an override block may hold any overridable setting, another format's own block included (the schema says so: the
	// parser must agree)
	for fi, f := range []string{"deb", "rpm", "apk", "ipk", "archlinux"} {
		for gi, g := range []struct{ block, body string }{{"rpm", "group: Development"}, {"deb", "breaks: [old-thing]"}, {"apk", "signature:\n          key_name: k"},
			{"ipk", "tags: [t]"}, {"archlinux", "packager: P <p@example.com>"}} {
			doc := fmt.Sprintf("name: foreign\narch: amd64\nversion: 1.0.0\noverrides:\n  %s:\n    depends: [d]\n    %s:\n      %s\n", f, g.block, g.body)
			emitStrictCase(w, fmt.Sprintf("foreign-override-%d-%d", fi, gi), doc, st, "another format's block inside an override block")
		}
	}
	// an override block for a format nobody registered is a matter for validation, not for the parser: the document
	// holds defined keys only, and the schema admits it
	for ni, name := range []string{"foo", "pacman", "msi", "DEB"} {
		doc := fmt.Sprintf("name: unreg\narch: amd64\nversion: 1.0.0\noverrides:\n  %s:\n    depends: [d]\n    umask: 0o027\n  deb:\n    depends: [e]\n", name)
		emitStrictCase(w, fmt.Sprintf("foreign-override-unregistered-%d", ni), doc, st, "an override block for a format that is not registered")
	}
	// generated configurations, each valid, and each with one random injection
	g := &pkgGen{rng: rng}
	n := 80
	if tier != "quick" {
		n = 1500
	}
	for i := 0; i < n; i++ {
		gen := g.config(i)
		if rng.Intn(3) == 0 {
			gen.cfg.Overrides = map[string]*nfpm.Overridables{"deb": {Depends: []string{"x"}}, "rpm": {}}
		}
		doc := marshalConfig(&gen.cfg)
		emitStrictCase(w, fmt.Sprintf("gen-%d", i), doc, st, "generated configuration")
		if d, path, ok := injectUnknown(doc, rng.Intn(40), g.pick([]string{"zzz", "nam", "Depends", "file-info", "mode_", "src "})); ok {
			emitStrictCase(w, fmt.Sprintf("gen-%d-inj", i), d, st, "unknown key added below "+path)
			if i%4 == 0 {
				emitTabbedCase(w, fmt.Sprintf("gen-%d-inj-tabs", i), d, st, "unknown key added below "+path+"; the document indented with tabs")
			}
		}
	}
	// documents at the edges of YAML
	for i, d := range []string{
		"name: x\nname: y\n", "name: x\noverrides:\n  apk:\n", "name: x\noverrides:\n  foo:\n    depends: [a]\n",
		"name: x\ncontents:\n  - dst: /a\n    file_info:\n      mod: 0644\n", "name: x\ndeb:\n  fields:\n    Any-Thing: v\n",
		"name: x\n? [complex, key]\n: 1\n", "{}\n", "name: x\nrpm:\n  signature:\n    keyfile: k\n",
		"name: x\noverrides:\n  deb:\n    name: nested-not-overridable\n", "name: x\narchlinux:\n  scripts:\n    preupgrade: a\n    preinstall: b\n",
	} {
		emitStrictCase(w, fmt.Sprintf("edge-%d", i), d, st, "edge document")
	}
	// values of the enumerated settings, and near variants of them (a level suffix): every value a packager actually
	// builds with is a value the schema must allow
	if prop == "C17" {
		probes := []struct {
			format, block, key string
			values             []string
		}{
			{"rpm", "rpm", "compression", []string{"gzip", "lzma", "xz", "zstd", "gzip:9", "zstd:3", "xz:6", "lzma:1", "bzip2", "gzip:x"}},
			{"deb", "deb", "compression", []string{"gzip", "xz", "zstd", "none", "gzip:9", "zstd:19", "zstd:3", "xz:6", "none:1", "bzip2"}},
		}
		for _, pr := range probes {
			for _, v := range pr.values {
				doc := fmt.Sprintf("name: probe\narch: amd64\nversion: 1.0.0\n%s:\n  %s: %q\n", pr.block, pr.key, v)
				if packageInto(doc, pr.format, io.Discard, nil) != nil {
					continue // the packager refuses the value: nothing the schema has to allow
				}
				emitStrictCase(w, fmt.Sprintf("value-%s.%s=%s", pr.format, pr.key, v), doc, st, "a value the packager builds with")
			}
		}
	}
	// a document of more than a mebibyte (a package listing its files one by one) whose LAST key is not defined, and the
	// same without it: size changes nothing about strictness
	if prop == "C16" {
		var big strings.Builder
		big.WriteString("name: big\narch: amd64\nversion: 1.0.0\ncontents:\n")
		for i := 0; big.Len() < 1200*1024; i++ {
			fmt.Fprintf(&big, "  - src: src/tree/dir%04d/file%05d.dat\n    dst: /opt/big/dir%04d/file%05d.dat\n", i/50, i, i/50, i)
		}
		emitStrictCase(w, "big-document", big.String(), st, "a document of 1.2 MiB")
		emitStrictCase(w, "big-document-unknown-last-key", big.String()+"not_a_key_of_nfpm: true\n", st, "an undefined key at the end of a document of 1.2 MiB")
		emitStrictCase(w, "big-document-unknown-key-in-last-entry", big.String()+"  - src: a\n    dst: /a\n    not_a_key: 1\n", st, "an undefined key in the last entry of a document of 1.2 MiB")
	}
	// every entry type with and without the optional keys of a content entry (a dir or ghost entry may name a src)
	if prop == "C17" {
		dir, err := os.MkdirTemp("", "verif-c17-")
		must(err)
		defer os.RemoveAll(dir)
		self := filepath.Join(dir, "small.txt")
		must(os.WriteFile(self, []byte("a small source file\n"), 0o644))
		for _, typ := range []string{"", "file", "dir", "symlink", "tree", "config", "config|noreplace", "config|missingok", "ghost", "doc", "licence", "license", "readme"} {
			for mask := 0; mask < 8; mask++ {
				src := self
				if typ == "tree" {
					src = dir
				}
				entry := map[string]any{"dst": "/opt/probe/entry"}
				if typ != "" || mask&4 != 0 {
					entry["type"] = typ // (spelt out as the empty string in half of the untyped probes)
				}
				if mask&1 != 0 {
					entry["src"] = src
				}
				if mask&2 != 0 {
					entry["file_info"] = map[string]any{"mode": 0o644, "owner": "root"}
				}
				if mask&4 != 0 {
					entry["packager"] = "rpm"
				}
				y, _ := yaml.Marshal(map[string]any{"name": "probe", "arch": "amd64", "version": "1.0.0", "contents": []any{entry}})
				if packageInto(string(y), "rpm", io.Discard, nil) != nil {
					continue // not a buildable combination (a file entry without src, ...)
				}
				emitStrictCase(w, fmt.Sprintf("entry-%s-%d", typ, mask), string(y), st, "a content entry the packagers build")
			}
		}
	}
	// environment expansion
	envs := []map[string]string{
		{"VX": "X1", "VY": "Y2", "VEMPTY": "", "VVER": "1.2.3-rc1"},
		{"VX": "", "VY": "", "VEMPTY": "", "VVER": "2.0.0"},
		{"VX": "$VY", "VY": "inner", "VEMPTY": " ", "VVER": "v3.1"},
		{"VX": "a b", "VY": "${VX}", "VEMPTY": "", "VVER": "1.0", "NFPM_PASSPHRASE": "general"},
		{"VX": "x", "VEMPTY": "", "VVER": "1.0", "NFPM_PASSPHRASE": "general", "NFPM_DEB_PASSPHRASE": "debpass"},
		{"VX": "x", "VEMPTY": "", "VVER": "1.0", "NFPM_RPM_PASSPHRASE": "rpmpass", "NFPM_APK_PASSPHRASE": "apkpass"},
		{"VX": "x", "VEMPTY": "", "VVER": "1.0", "NFPM_PASSPHRASE": "g", "NFPM_DEB_PASSPHRASE": "d", "NFPM_RPM_PASSPHRASE": "r", "NFPM_APK_PASSPHRASE": "a"},
		{"VX": "x", "VEMPTY": "", "VVER": "1.0", "NFPM_PASSPHRASE": "g", "NFPM_APK_PASSPHRASE": "a"},
		// values that begin or end with blanks: only list items are trimmed
		{"VX": " x ", "VY": "\ty\n", "VEMPTY": "  ", "VVER": "1.0 "},
		// characters that mean something to a glob, a shell or a path: a value is substituted as it is
		{"VX": "out/build[1]*?{a,b}\\x", "VY": "~", "VEMPTY": "", "VVER": "1.0"},
		{"VX": "~/x", "VY": "~", "VEMPTY": "", "VVER": "1.0"},
		// values that hold a line break: a value is substituted whole, wherever it goes
		{"VX": "first\nsecond", "VY": "y\r\nz", "VEMPTY": "", "VVER": "1.0"},
		{"VX": "trailing\n", "VY": "\n", "VEMPTY": "", "VVER": "1.0"},
	}
	for i, e := range envs {
		emitExpandCase(w, fmt.Sprintf("exp-%d", i), expandDoc, e, st)
	}
	// the same under each version schema a document can name: which fields are expanded does not depend on it
	for si, schema := range []string{"none", "semver"} {
		for _, i := range []int{0, 2, 3, 8} {
			emitExpandCase(w, fmt.Sprintf("exp-schema-%s-%d", schema, i), "version_schema: "+schema+"\n"+expandDoc, envs[i], st)
		}
		_ = si
	}
	// values with brackets and prefixes some tools strip, list items that expand to nothing in the format-specific lists,
	// the opt-in written in YAML's other spellings of true
	moreDoc := "name: more\narch: amd64\nversion: 1.0.0\nhomepage: \"<https://example.com/${VX}>\"\nvendor: \"URL:${VX}\"\nmaintainer: \"<${VX}>\"\n" +
		"deb:\n  predepends: [\"${VEMPTY}\", \"keep-${VX}\", \" ${VEMPTY} \"]\n  breaks: [\"${VEMPTY}\", b]\nipk:\n  predepends: [\"${VEMPTY}\", \"ikeep\"]\n" +
		"contents:\n  - src: \"s/${VX}\"\n    dst: \"/d/${VX}\"\n    expand: yes\n  - src: \"t/${VX}\"\n    dst: \"/e/${VX}\"\n    expand: on\n  - src: \"u/${VX}\"\n    dst: \"/f/${VX}\"\n    expand: Yes\n  - src: \"v/${VX}\"\n    dst: \"/g/${VX}\"\n    expand: no\n"
	for i, e := range envs[:3] {
		emitExpandCase(w, fmt.Sprintf("more-%d", i), moreDoc, e, st)
	}
	// a tilde is a character like any other (the process has a HOME; the caller's mapping knows nothing of it)
	tildeDoc := "name: tilde\narch: amd64\nversion: 1.0.0\ndeb:\n  signature:\n    key_file: \"~/keys/deb.asc\"\nrpm:\n  signature:\n    key_file: \"~\"\napk:\n  signature:\n    key_file: \"~/keys/${VX}.rsa\"\ncontents:\n  - src: \"~/src/${VX}\"\n    dst: \"/~/${VX}\"\n    expand: true\n  - src: \"~/src\"\n    dst: \"/~\"\n"
	oldHome := os.Getenv("HOME")
	os.Setenv("HOME", "/home/of-the-harness-process")
	for i, e := range []map[string]string{{"VX": "x"}, {"VX": "~"}, {"VX": "", "HOME": "/home/from-the-mapping"}} {
		emitExpandCase(w, fmt.Sprintf("tilde-%d", i), tildeDoc, e, st)
	}
	os.Setenv("HOME", oldHome)
	// os.Expand syntax corners in one field
	corners := []string{"$", "$$", "${", "${}", "${VX", "$VX}", "$1", "${1}", "$-x", "a$", "$ VX", "${VX}${VY}", "$VX_Y", "${VX:-d}", "\\$VX", "$*", "${*}", "é$VXé", "$VX$", "100%",
		" lead", "trail ", "  both  ", "line\n", "\ttabbed\t", " $VX ", "two\nlines\n"}
	for i, c := range corners {
		y, _ := yaml.Marshal(map[string]any{"name": "n", "description": c, "depends": []string{c, "x" + c + "y"}})
		emitExpandCase(w, fmt.Sprintf("corner-%d", i), string(y), map[string]string{"VX": "<x>", "VY": "<y>", "VX_Y": "<xy>", "1": "<one>", "*": "<star>", "-": "<dash>"}, st)
	}
	w.close()
	writeJSON(statsOut, map[string]any{"cases": st.cases, "distinct": len(st.distinct), "distinct_nontrivial": len(st.distinct),
		"accepted": st.strictOK, "rejected": st.strictRejected, "documents_also_parsed_from_files": st.fileParses, "documents_indented_with_tabs": st.tabbed, "mapping_positions_of_full_document": st.positions,
		"expansion_cases": st.expandCases, "samples": st.samples})
}
