package main

// Independent readers for the five package formats. None of these share code with nFPM's
// writer call sites: own ar / rpm lead+header / cpio-newc / mtree / deb822 parsers, the
// standard library's tar and gzip readers, ulikunitz/xz and klauspost/zstd for decompression.

import (
	"archive/tar"
	"bufio"
	"bytes"
	"compress/gzip"
	"crypto/md5"
	"crypto/sha1"
	"crypto/sha256"
	"encoding/binary"
	"encoding/hex"
	"errors"
	"fmt"
	"io"
	"sort"
	"strconv"
	"strings"

	"github.com/klauspost/compress/zstd"
	"github.com/ulikunitz/xz"
	"github.com/ulikunitz/xz/lzma"
)

// ---------- generic observation ----------

type pEntry struct {
	Path   string // name as stored in the archive
	Kind   string // file | dir | symlink | other:<flag>
	Mode   int64
	Uname  string
	Gname  string
	MTime  int64
	Size   int64
	SHA256 string // of the data as shipped
	MD5    string
	SHA1   string
	Link   string
	PaxSHA1 string // apk: APK-TOOLS.checksum.SHA1
	Format string // tar header format name
	Flags  uint32 // rpm file flags
	InPayload bool // rpm: present in cpio
	Digest string // rpm: header file digest
	Uid, Gid int  // numeric owner ids as stored (tar members)
}

type member struct {
	Name  string
	Size  int64
	MTime int64
	Data  []byte
}

type kv struct{ K, V string }

type pkgObs struct {
	Format    string
	Members   []member // outer container members, in order
	Payload   []pEntry
	Meta      []kv // control fields / PKGINFO lines / rpm tags, in stored order
	Conffiles []string
	HasConffiles bool
	Scripts   map[string][]byte
	ScriptModes map[string]int64
	Digests   []digestObs
	Sizes     []sizeObs
	Stamps    []stampObs
	Struct    map[string]bool // structural facts established by the decoder
	Notes     []string
	Control   []pEntry // control archive members (deb/ipk/apk control segment)
	Triggers  string
	Md5sums   []kv // deb: digest, name
	Mtree     []mtreeLine
	SigMembers map[string][]byte
	Tars      []tarPiece  // every tar stream of the package, decompressed, with whether it must carry the end-of-archive marker
	cpioEntries []cpioEntry // rpm: the payload archive's entries as this file's own reader finds them
	Raw       map[string][]byte // raw pieces needed for signatures (deb members, apk control segment, rpm header/payload)
}

type digestObs struct{ Name, Stored, Recomputed string }
type sizeObs struct {
	Name               string
	Stored, Recomputed int64
}
type stampObs struct {
	Where string
	Value int64
}

type mtreeLine struct {
	Path string
	KV   map[string]string
}

func newObs(format string) *pkgObs {
	return &pkgObs{Format: format, Scripts: map[string][]byte{}, ScriptModes: map[string]int64{}, Struct: map[string]bool{}, SigMembers: map[string][]byte{}, Raw: map[string][]byte{}}
}

func hexsum(h func([]byte) []byte, b []byte) string { return hex.EncodeToString(h(b)) }
func md5b(b []byte) []byte  { s := md5.Sum(b); return s[:] }
func sha1b(b []byte) []byte { s := sha1.Sum(b); return s[:] }
func sha256b(b []byte) []byte { s := sha256.Sum256(b); return s[:] }

// ---------- ar ----------

func readAr(b []byte) ([]member, error) {
	if !bytes.HasPrefix(b, []byte("!<arch>\n")) {
		return nil, errors.New("ar: bad global header")
	}
	pos := 8
	var out []member
	for pos < len(b) {
		if pos+60 > len(b) {
			return out, fmt.Errorf("ar: truncated member header at %d", pos)
		}
		h := b[pos : pos+60]
		if h[58] != '`' || h[59] != '\n' {
			return out, fmt.Errorf("ar: bad member magic at %d", pos)
		}
		name := strings.TrimRight(string(h[0:16]), " ")
		name = strings.TrimSuffix(name, "/")
		mt, err1 := strconv.ParseInt(strings.TrimSpace(string(h[16:28])), 10, 64)
		size, err2 := strconv.ParseInt(strings.TrimSpace(string(h[48:58])), 10, 64)
		if err1 != nil || err2 != nil {
			return out, fmt.Errorf("ar: bad numeric field in member %q", name)
		}
		pos += 60
		if pos+int(size) > len(b) {
			return out, fmt.Errorf("ar: member %q truncated", name)
		}
		out = append(out, member{Name: name, Size: size, MTime: mt, Data: b[pos : pos+int(size)]})
		pos += int(size)
		if size%2 == 1 {
			if pos >= len(b) {
				return out, fmt.Errorf("ar: missing pad byte after %q", name)
			}
			pos++
		}
	}
	return out, nil
}

// ---------- decompression ----------

func gunzipAll(b []byte) ([]byte, error) {
	r, err := gzip.NewReader(bytes.NewReader(b))
	if err != nil {
		return nil, err
	}
	return io.ReadAll(r)
}

// gzipMembers splits a concatenation of gzip members and returns (compressed bytes, decompressed bytes, header mtime) per member
type gzMember struct {
	Comp, Plain []byte
	MTime       int64
}

func gzipMembers(b []byte) ([]gzMember, error) {
	var out []gzMember
	br := bytes.NewReader(b)
	for br.Len() > 0 {
		start := len(b) - br.Len()
		bur := bufio.NewReader(br)
		zr, err := gzip.NewReader(bur)
		if err != nil {
			return out, err
		}
		zr.Multistream(false)
		plain, err := io.ReadAll(zr)
		if err != nil {
			return out, err
		}
		// bytes consumed = total read from br minus what is still buffered
		consumed := (len(b) - br.Len()) - bur.Buffered() - start
		mt := int64(0)
		if !zr.ModTime.IsZero() {
			mt = zr.ModTime.Unix()
		}
		out = append(out, gzMember{Comp: b[start : start+consumed], Plain: plain, MTime: mt})
		br.Seek(int64(start+consumed), io.SeekStart)
	}
	return out, nil
}

func decompress(kind string, b []byte) ([]byte, error) {
	switch kind {
	case "gzip":
		return gunzipAll(b)
	case "xz":
		r, err := xz.NewReader(bytes.NewReader(b))
		if err != nil {
			return nil, err
		}
		return io.ReadAll(r)
	case "lzma":
		r, err := lzma.NewReader(bytes.NewReader(b))
		if err != nil {
			return nil, err
		}
		return io.ReadAll(r)
	case "zstd":
		r, err := zstd.NewReader(bytes.NewReader(b))
		if err != nil {
			return nil, err
		}
		defer r.Close()
		return io.ReadAll(r)
	case "none":
		return b, nil
	}
	return nil, fmt.Errorf("unknown compression %q", kind)
}

func sniff(b []byte) string {
	switch {
	case len(b) >= 2 && b[0] == 0x1f && b[1] == 0x8b:
		return "gzip"
	case len(b) >= 6 && bytes.Equal(b[:6], []byte{0xfd, '7', 'z', 'X', 'Z', 0}):
		return "xz"
	case len(b) >= 4 && bytes.Equal(b[:4], []byte{0x28, 0xb5, 0x2f, 0xfd}):
		return "zstd"
	case len(b) >= 3 && b[0] == 0x5d && b[1] == 0 && b[2] == 0:
		return "lzma"
	}
	return "none"
}

// zstdFrameWindow: the memory a decoder must set aside for the first frame of a zstd stream, read from the frame
// header (RFC 8878, 3.1.1.1): the window descriptor, or the frame content size of a single-segment frame.
// libzstd with its default settings (dpkg-deb, apt, libarchive, tar --zstd, pacman) refuses frames beyond 2^27 bytes.
func zstdFrameWindow(b []byte) (uint64, bool) {
	if len(b) < 6 || sniff(b) != "zstd" {
		return 0, false
	}
	fhd := b[4]
	single := fhd&0x20 != 0
	if !single {
		wd := b[5]
		base := uint64(1) << (10 + uint(wd>>3))
		return base + base/8*uint64(wd&7), true
	}
	dict := []int{0, 1, 2, 4}[fhd&3]
	fcs := []int{1, 2, 4, 8}[fhd>>6]
	at := 5 + dict
	if len(b) < at+fcs {
		return 0, false
	}
	var v uint64
	for i := fcs - 1; i >= 0; i-- {
		v = v<<8 | uint64(b[at+i])
	}
	if fcs == 2 {
		v += 256
	}
	return v, true
}

const zstdReferenceWindowLimit = 1 << 27

// ---------- tar ----------

// rawTarTypeflags walks the 512-byte blocks of a tar stream and returns the type flag of every header, including
// the extended headers archive/tar's reader folds into the entry that follows them
// tarPiece: one tar stream of a package as stored (after decompression)
type tarPiece struct {
	Name string
	Full bool // complete archive (two zero blocks at the end) or an apk segment cut before them
	B    []byte
}

// rawTarMembers: typeflag and size of every header block up to the first zero block, by a scan that knows
// nothing but the block layout (compared with the container model's reader)
func rawTarMembers(b []byte) (flags []byte, sizes []int64) {
	for off := 0; off+512 <= len(b); {
		h := b[off : off+512]
		if bytes.Equal(h, make([]byte, 512)) {
			break
		}
		size := int64(0)
		if h[124]&0x80 != 0 {
			for _, c := range h[125:136] {
				size = size<<8 | int64(c)
			}
		} else {
			fmt.Sscanf(strings.TrimRight(strings.TrimSpace(string(h[124:136])), "\x00"), "%o", &size)
		}
		flags, sizes = append(flags, h[156]), append(sizes, size)
		off += 512 + int((size+511)/512*512)
	}
	return
}

func rawTarTypeflags(b []byte) []byte {
	var flags []byte
	for off := 0; off+512 <= len(b); {
		h := b[off : off+512]
		if bytes.Equal(h, make([]byte, 512)) {
			break
		}
		flags = append(flags, h[156])
		size := int64(0)
		if h[124]&0x80 != 0 {
			for _, c := range h[125:136] {
				size = size<<8 | int64(c)
			}
		} else {
			fmt.Sscanf(strings.TrimRight(strings.TrimSpace(string(h[124:136])), "\x00"), "%o", &size)
		}
		off += 512 + int((size+511)/512*512)
	}
	return flags
}

func tarFormatName(f tar.Format) string {
	switch f {
	case tar.FormatUSTAR:
		return "ustar"
	case tar.FormatPAX:
		return "pax"
	case tar.FormatGNU:
		return "gnu"
	}
	return "unknown"
}

// readTar returns the entries of a tar stream, with the data of every regular file, and whether the
// stream ends with the 1024-byte end-of-archive marker
func readTar(b []byte) ([]pEntry, map[string][]byte, error) {
	tr := tar.NewReader(bytes.NewReader(b))
	var out []pEntry
	data := map[string][]byte{}
	for {
		h, err := tr.Next()
		if err == io.EOF {
			break
		}
		if err != nil {
			return out, data, err
		}
		e := pEntry{Path: h.Name, Mode: h.Mode, Uid: h.Uid, Gid: h.Gid, Uname: h.Uname, Gname: h.Gname, MTime: h.ModTime.Unix(), Size: h.Size, Link: h.Linkname, Format: tarFormatName(h.Format), InPayload: true}
		switch h.Typeflag {
		case tar.TypeReg, tar.TypeRegA:
			e.Kind = "file"
			body, err := io.ReadAll(tr)
			if err != nil {
				return out, data, err
			}
			if int64(len(body)) != h.Size {
				return out, data, fmt.Errorf("tar: %s: size %d but %d bytes", h.Name, h.Size, len(body))
			}
			e.SHA256, e.MD5, e.SHA1 = hexsum(sha256b, body), hexsum(md5b, body), hexsum(sha1b, body)
			data[h.Name] = body
		case tar.TypeDir:
			e.Kind = "dir"
		case tar.TypeSymlink:
			e.Kind = "symlink"
		default:
			e.Kind = fmt.Sprintf("other:%c", h.Typeflag)
		}
		if v, ok := h.PAXRecords["APK-TOOLS.checksum.SHA1"]; ok {
			e.PaxSHA1 = v
		}
		out = append(out, e)
	}
	return out, data, nil
}

// tarEndMarker: does the raw tar stream end with two zero blocks, and is its length a multiple of 512
func tarTrailer(b []byte) (hasEnd bool, aligned bool) {
	aligned = len(b)%512 == 0
	if len(b) < 1024 {
		return false, aligned
	}
	for _, c := range b[len(b)-1024:] {
		if c != 0 {
			return false, aligned
		}
	}
	return true, aligned
}

// ---------- deb822 control ----------

// parseControl parses a control stanza independently of the template that printed it: a field starts
// at column 0 with "Name: ", continuation lines start with a space.
func parseControl(b []byte) ([]kv, error) {
	var out []kv
	for _, line := range strings.Split(strings.TrimRight(string(b), "\n"), "\n") {
		if strings.HasPrefix(line, " ") || strings.HasPrefix(line, "\t") {
			if len(out) == 0 {
				return out, errors.New("control: continuation before first field")
			}
			out[len(out)-1].V += "\n" + line
			continue
		}
		i := strings.Index(line, ":")
		if i <= 0 {
			return out, fmt.Errorf("control: malformed line %q", line)
		}
		out = append(out, kv{line[:i], strings.TrimPrefix(line[i+1:], " ")})
	}
	return out, nil
}

// ---------- rpm ----------

type rpmTag struct {
	Tag, Typ, Off, Cnt int
}

type rpmHeader struct {
	Tags  []rpmTag
	Store []byte
	Raw   []byte // the whole header as stored
}

func parseRPMHeader(b []byte, pos int) (*rpmHeader, int, error) {
	if pos+16 > len(b) || !bytes.Equal(b[pos:pos+4], []byte{0x8e, 0xad, 0xe8, 0x01}) {
		return nil, pos, fmt.Errorf("rpm: bad header magic at %d", pos)
	}
	n := int(binary.BigEndian.Uint32(b[pos+8:]))
	hs := int(binary.BigEndian.Uint32(b[pos+12:]))
	end := pos + 16 + 16*n + hs
	if end > len(b) {
		return nil, pos, errors.New("rpm: header truncated")
	}
	h := &rpmHeader{Store: b[pos+16+16*n : end], Raw: b[pos:end]}
	for i := 0; i < n; i++ {
		e := b[pos+16+16*i:]
		h.Tags = append(h.Tags, rpmTag{int(binary.BigEndian.Uint32(e)), int(binary.BigEndian.Uint32(e[4:])), int(binary.BigEndian.Uint32(e[8:])), int(binary.BigEndian.Uint32(e[12:]))})
	}
	return h, end, nil
}

func (h *rpmHeader) find(tag int) *rpmTag {
	for i := range h.Tags {
		if h.Tags[i].Tag == tag {
			return &h.Tags[i]
		}
	}
	return nil
}

func cstr(b []byte) (string, int) {
	i := bytes.IndexByte(b, 0)
	if i < 0 {
		return string(b), len(b)
	}
	return string(b[:i]), i + 1
}

func (h *rpmHeader) strs(tag int) []string {
	t := h.find(tag)
	if t == nil {
		return nil
	}
	switch t.Typ {
	case 6, 9: // STRING, I18NSTRING (count strings)
		fallthrough
	case 8:
		var out []string
		off := t.Off
		for i := 0; i < t.Cnt && off <= len(h.Store); i++ {
			s, n := cstr(h.Store[off:])
			out = append(out, s)
			off += n
		}
		return out
	}
	return nil
}

func (h *rpmHeader) str(tag int) (string, bool) {
	s := h.strs(tag)
	if len(s) == 0 {
		return "", false
	}
	return s[0], true
}

func (h *rpmHeader) ints(tag int) []int64 {
	t := h.find(tag)
	if t == nil {
		return nil
	}
	var out []int64
	for i := 0; i < t.Cnt; i++ {
		switch t.Typ {
		case 3:
			out = append(out, int64(binary.BigEndian.Uint16(h.Store[t.Off+2*i:])))
		case 4:
			out = append(out, int64(binary.BigEndian.Uint32(h.Store[t.Off+4*i:])))
		case 5:
			out = append(out, int64(binary.BigEndian.Uint64(h.Store[t.Off+8*i:])))
		case 2, 1:
			out = append(out, int64(h.Store[t.Off+i]))
		}
	}
	return out
}

func (h *rpmHeader) bin(tag int) []byte {
	t := h.find(tag)
	if t == nil || t.Typ != 7 {
		return nil
	}
	return h.Store[t.Off : t.Off+t.Cnt]
}

type cpioEntry struct {
	Name  string
	Mode  int64
	Size  int64
	MTime int64
	Links int64
	Data  []byte
}

func readCpio(b []byte) ([]cpioEntry, bool, error) {
	pos := 0
	var out []cpioEntry
	hexf := func(s []byte) int64 { v, _ := strconv.ParseInt(string(s), 16, 64); return v }
	for {
		if pos+110 > len(b) {
			return out, false, errors.New("cpio: truncated header")
		}
		h := b[pos : pos+110]
		if string(h[:6]) != "070701" {
			return out, false, fmt.Errorf("cpio: bad magic at %d", pos)
		}
		mode, mtime, size, namesize, nlink := hexf(h[14:22]), hexf(h[46:54]), hexf(h[54:62]), hexf(h[94:102]), hexf(h[38:46])
		pos += 110
		name := strings.TrimRight(string(b[pos:pos+int(namesize)]), "\x00")
		pos += int(namesize)
		pos = (pos + 3) &^ 3
		if name == "TRAILER!!!" {
			return out, true, nil
		}
		if pos+int(size) > len(b) {
			return out, false, errors.New("cpio: truncated data")
		}
		out = append(out, cpioEntry{Name: name, Mode: mode, Size: size, MTime: mtime, Links: nlink, Data: b[pos : pos+int(size)]})
		pos += int(size)
		pos = (pos + 3) &^ 3
	}
}

// rpm tag numbers used by the projection
const (
	rpmName = 1000; rpmVersion = 1001; rpmRelease = 1002; rpmEpoch = 1003; rpmSummary = 1004; rpmDescription = 1005
	rpmBuildTime = 1006; rpmBuildHost = 1007; rpmSize = 1009; rpmVendor = 1011; rpmLicense = 1014; rpmPackager = 1015
	rpmGroup = 1016; rpmURL = 1020; rpmOS = 1021; rpmArch = 1022
	rpmPrein = 1023; rpmPostin = 1024; rpmPreun = 1025; rpmPostun = 1026
	rpmFileSizes = 1028; rpmFileModes = 1030; rpmFileMTimes = 1034; rpmFileDigests = 1035; rpmFileLinkTos = 1036
	rpmFileFlags = 1037; rpmFileUser = 1039; rpmFileGroup = 1040
	rpmProvideName = 1047; rpmRequireFlags = 1048; rpmRequireName = 1049; rpmRequireVersion = 1050
	rpmConflictFlags = 1053; rpmConflictName = 1054; rpmConflictVersion = 1055
	rpmChangelogTime = 1080; rpmChangelogName = 1081; rpmChangelogText = 1082
	rpmObsoleteName = 1090; rpmVerifyScript = 1079; rpmPrefixes = 1098
	rpmProvideFlags = 1112; rpmProvideVersion = 1113; rpmObsoleteFlags = 1114; rpmObsoleteVersion = 1115
	rpmDirIndexes = 1116; rpmBaseNames = 1117; rpmDirNames = 1118
	rpmPayloadFormat = 1124; rpmPayloadCompressor = 1125
	rpmPretrans = 1151; rpmPosttrans = 1152
	rpmRecommendName = 5046; rpmRecommendVersion = 5047; rpmRecommendFlags = 5048
	rpmSuggestName = 5049; rpmSuggestVersion = 5050; rpmSuggestFlags = 5051
	rpmPayloadDigest = 5092; rpmPayloadDigestAlgo = 5093
	sigSize = 1000; sigPGP = 1002; sigPayloadSize = 1007; sigRSA = 268; sigSHA256 = 273
)

func relString(names, versions []string, flags []int64, i int) string {
	s := names[i]
	if i < len(versions) && versions[i] != "" {
		op := ""
		f := int64(0)
		if i < len(flags) {
			f = flags[i]
		}
		if f&0x02 != 0 {
			op += "<"
		}
		if f&0x04 != 0 {
			op += ">"
		}
		if f&0x08 != 0 {
			op += "="
		}
		s += " " + op + " " + versions[i]
	}
	return s
}

func decodeRPM(b []byte) (*pkgObs, error) {
	o := newObs("rpm")
	if len(b) < 96 || !bytes.Equal(b[:4], []byte{0xed, 0xab, 0xee, 0xdb}) {
		return o, errors.New("rpm: bad lead")
	}
	o.Struct["lead"] = true
	sig, end, err := parseRPMHeader(b, 96)
	if err != nil {
		return o, err
	}
	pad := (8 - (end-96)%8) % 8
	o.Struct["sig_pad_zero"] = true
	for _, c := range b[end : end+pad] {
		if c != 0 {
			o.Struct["sig_pad_zero"] = false
		}
	}
	hdr, hend, err := parseRPMHeader(b, end+pad)
	if err != nil {
		o.Struct["sig_aligned"] = false
		return o, fmt.Errorf("header not found after 8-byte aligned signature: %w", err)
	}
	o.Struct["sig_aligned"] = true
	// rpm's header check refuses an index entry without data (count 0)
	o.Struct["header_entries_have_data"] = true
	for _, t := range append(append([]rpmTag{}, sig.Tags...), hdr.Tags...) {
		if t.Cnt <= 0 {
			o.Struct["header_entries_have_data"] = false
			o.Notes = append(o.Notes, fmt.Sprintf("rpm header entry for tag %d has count %d", t.Tag, t.Cnt))
		}
	}
	payload := b[hend:]
	o.Raw["header"], o.Raw["payload"] = hdr.Raw, payload
	comp, _ := hdr.str(rpmPayloadCompressor)
	kind := sniff(payload)
	o.Struct["compressor_tag_matches_stream"] = comp == kind
	o.Meta = append(o.Meta, kv{"PayloadCompressor", comp})
	plain, err := decompress(kind, payload)
	if err != nil {
		return o, fmt.Errorf("rpm payload: %w", err)
	}
	entries, trailer, err := readCpio(plain)
	if err != nil {
		return o, err
	}
	o.Struct["cpio_trailer"] = trailer
	o.Raw["cpio"] = plain
	o.cpioEntries = entries
	// meta
	addS := func(name string, tag int) {
		if s, ok := hdr.str(tag); ok {
			o.Meta = append(o.Meta, kv{name, s})
		}
	}
	for _, p := range []struct {
		n string
		t int
	}{{"Name", rpmName}, {"Version", rpmVersion}, {"Release", rpmRelease}, {"Summary", rpmSummary}, {"Description", rpmDescription},
		{"BuildHost", rpmBuildHost}, {"Vendor", rpmVendor}, {"License", rpmLicense}, {"Packager", rpmPackager}, {"Group", rpmGroup},
		{"URL", rpmURL}, {"OS", rpmOS}, {"Arch", rpmArch}, {"PayloadFormat", rpmPayloadFormat}} {
		addS(p.n, p.t)
	}
	if e := hdr.ints(rpmEpoch); len(e) > 0 {
		o.Meta = append(o.Meta, kv{"Epoch", strconv.FormatInt(e[0], 10)})
	}
	for _, s := range hdr.strs(rpmPrefixes) {
		o.Meta = append(o.Meta, kv{"Prefixes", s})
	}
	for _, r := range []struct {
		n          string
		tn, tv, tf int
	}{{"Provides", rpmProvideName, rpmProvideVersion, rpmProvideFlags}, {"Requires", rpmRequireName, rpmRequireVersion, rpmRequireFlags},
		{"Conflicts", rpmConflictName, rpmConflictVersion, rpmConflictFlags}, {"Obsoletes", rpmObsoleteName, rpmObsoleteVersion, rpmObsoleteFlags},
		{"Recommends", rpmRecommendName, rpmRecommendVersion, rpmRecommendFlags}, {"Suggests", rpmSuggestName, rpmSuggestVersion, rpmSuggestFlags}} {
		names, vers, flags := hdr.strs(r.tn), hdr.strs(r.tv), hdr.ints(r.tf)
		for i := range names {
			v, f := "", int64(0)
			if i < len(vers) {
				v = vers[i]
			}
			if i < len(flags) {
				f = flags[i]
			}
			o.Meta = append(o.Meta, kv{r.n, fmt.Sprintf("%s|%d|%s", names[i], f, v)})
		}
	}
	ct, cn, cx := hdr.ints(rpmChangelogTime), hdr.strs(rpmChangelogName), hdr.strs(rpmChangelogText)
	for i := range cn {
		t := int64(0)
		if i < len(ct) {
			t = ct[i]
		}
		x := ""
		if i < len(cx) {
			x = cx[i]
		}
		o.Meta = append(o.Meta, kv{"Changelog", fmt.Sprintf("%d|%s|%s", t, cn[i], x)})
		o.Meta = append(o.Meta, kv{"ChangelogTime", fmt.Sprint(t)}, kv{"ChangelogName", cn[i]}, kv{"ChangelogText", x})
	}
	for _, s := range []struct {
		n string
		t int
	}{{"pretrans", rpmPretrans}, {"prein", rpmPrein}, {"postin", rpmPostin}, {"preun", rpmPreun}, {"postun", rpmPostun}, {"posttrans", rpmPosttrans}, {"verify", rpmVerifyScript}} {
		if v, ok := hdr.str(s.t); ok {
			o.Scripts[s.n] = []byte(v)
		}
	}
	if bt := hdr.ints(rpmBuildTime); len(bt) > 0 {
		o.Stamps = append(o.Stamps, stampObs{"rpm.buildtime", bt[0]})
	}
	// file list
	base, dirs, didx := hdr.strs(rpmBaseNames), hdr.strs(rpmDirNames), hdr.ints(rpmDirIndexes)
	sizes, modes, mtimes := hdr.ints(rpmFileSizes), hdr.ints(rpmFileModes), hdr.ints(rpmFileMTimes)
	digests, links, flags := hdr.strs(rpmFileDigests), hdr.strs(rpmFileLinkTos), hdr.ints(rpmFileFlags)
	users, groups := hdr.strs(rpmFileUser), hdr.strs(rpmFileGroup)
	n := len(base)
	lens := []int{len(didx), len(sizes), len(modes), len(mtimes), len(digests), len(links), len(flags), len(users), len(groups)}
	o.Struct["file_arrays_same_length"] = true
	for _, l := range lens {
		if l != n {
			o.Struct["file_arrays_same_length"] = false
		}
	}
	byName := map[string]*cpioEntry{}
	var cpioNames []string
	for i := range entries {
		byName[entries[i].Name] = &entries[i]
		cpioNames = append(cpioNames, entries[i].Name)
	}
	o.Struct["cpio_sorted"] = sort.StringsAreSorted(cpioNames)
	var expectCpio []string
	var sumBodies int64
	if o.Struct["file_arrays_same_length"] {
		for i := 0; i < n; i++ {
			name := dirs[didx[i]] + base[i]
			m := modes[i]
			e := pEntry{Path: name, Mode: m & 0o7777, Uname: users[i], Gname: groups[i], MTime: mtimes[i], Size: sizes[i], Link: links[i], Flags: uint32(flags[i]), Digest: digests[i]}
			switch m & 0o170000 {
			case 0o040000:
				e.Kind = "dir"
			case 0o120000:
				e.Kind = "symlink"
			case 0o100000:
				e.Kind = "file"
			default:
				e.Kind = fmt.Sprintf("other:%o", m&0o170000)
			}
			o.Stamps = append(o.Stamps, stampObs{"rpm.filemtime:" + name, mtimes[i]})
			ghost := flags[i]&(1<<6) != 0
			if c, ok := byName[name]; ok {
				e.InPayload = true
				e.SHA256 = hexsum(sha256b, c.Data)
				e.MD5 = hexsum(md5b, c.Data)
				if e.Kind == "file" {
					o.Digests = append(o.Digests, digestObs{"rpm.filedigest:" + name, digests[i], e.SHA256})
					o.Sizes = append(o.Sizes, sizeObs{"rpm.filesize:" + name, sizes[i], c.Size})
				}
				if e.Kind == "symlink" {
					o.Struct["symlink_body_is_target:"+name] = string(c.Data) == links[i]
				}
				if c.Mode != m {
					o.Struct["cpio_mode_matches_header:"+name] = false
				}
				sumBodies += c.Size
			}
			if !ghost {
				expectCpio = append(expectCpio, name)
			}
			o.Payload = append(o.Payload, e)
		}
	}
	o.Struct["cpio_matches_header_filelist"] = strings.Join(expectCpio, "\x00") == strings.Join(cpioNames, "\x00")
	// digests and sizes
	if s, ok := sig.str(sigSHA256); ok {
		o.Digests = append(o.Digests, digestObs{"rpm.sig.sha256(header)", s, hexsum(sha256b, hdr.Raw)})
	} else {
		o.Notes = append(o.Notes, "no header sha256 in signature header")
	}
	if pd := hdr.strs(rpmPayloadDigest); len(pd) > 0 {
		o.Digests = append(o.Digests, digestObs{"rpm.payloaddigest", pd[0], hexsum(sha256b, payload)})
	}
	if v := sig.ints(sigSize); len(v) > 0 {
		o.Sizes = append(o.Sizes, sizeObs{"rpm.sig.size(header+payload)", v[0], int64(len(hdr.Raw) + len(payload))})
	}
	if v := sig.ints(sigPayloadSize); len(v) > 0 {
		o.Sizes = append(o.Sizes, sizeObs{"rpm.sig.payloadsize(sum of bodies)", v[0], sumBodies})
	}
	if v := hdr.ints(rpmSize); len(v) > 0 {
		o.Sizes = append(o.Sizes, sizeObs{"rpm.size(sum of bodies)", v[0], sumBodies})
	}
	if s := sig.bin(sigRSA); s != nil {
		o.SigMembers["rsa(header)"] = s
	}
	if s := sig.bin(sigPGP); s != nil {
		o.SigMembers["pgp(header+payload)"] = s
	}
	o.Members = []member{{Name: "lead", Size: 96}, {Name: "signature", Size: int64(len(sig.Raw))}, {Name: "header", Size: int64(len(hdr.Raw))}, {Name: "payload." + kind, Size: int64(len(payload))}}
	return o, nil
}

// ---------- deb ----------

func splitLines(b []byte) []string {
	s := strings.TrimRight(string(b), "\n")
	if s == "" {
		return nil
	}
	return strings.Split(s, "\n")
}

func decodeDebLike(o *pkgObs, controlTgz, dataTar []byte, dataKind string) error {
	ctl, err := gunzipAll(controlTgz)
	if err != nil {
		return fmt.Errorf("control.tar.gz: %w", err)
	}
	if ms, err := gzipMembers(controlTgz); err == nil && len(ms) > 0 {
		o.Stamps = append(o.Stamps, stampObs{"gzip-header:control.tar.gz", ms[0].MTime})
	}
	centries, cdata, err := readTar(ctl)
	if err != nil {
		return fmt.Errorf("control tar: %w", err)
	}
	hasEnd, aligned := tarTrailer(ctl)
	o.Struct["control_tar_complete"] = hasEnd && aligned
	o.Tars = append(o.Tars, tarPiece{"control.tar", true, ctl})
	o.Control = centries
	for _, e := range centries {
		o.Stamps = append(o.Stamps, stampObs{"control:" + e.Path, e.MTime})
		name := strings.TrimPrefix(e.Path, "./")
		switch name {
		case "control":
			m, err := parseControl(cdata[e.Path])
			if err != nil {
				return err
			}
			o.Meta = m
			o.Raw["control"] = cdata[e.Path]
		case "conffiles":
			o.HasConffiles = true
			o.Conffiles = splitLines(cdata[e.Path])
			o.Raw["conffiles"] = cdata[e.Path]
		case "md5sums":
			o.Raw["md5sums"] = cdata[e.Path]
			for _, l := range splitLines(cdata[e.Path]) {
				p := strings.SplitN(l, "  ", 2)
				if len(p) == 2 {
					o.Md5sums = append(o.Md5sums, kv{p[0], p[1]})
				} else {
					o.Notes = append(o.Notes, "malformed md5sums line: "+l)
				}
			}
			o.Struct["has_md5sums"] = true
		case "triggers":
			o.Triggers = string(cdata[e.Path])
		default:
			o.Scripts[name] = cdata[e.Path]
			o.ScriptModes[name] = e.Mode
		}
	}
	plain, err := decompress(dataKind, dataTar)
	if err != nil {
		return fmt.Errorf("data tar (%s): %w", dataKind, err)
	}
	if dataKind == "gzip" {
		if ms, err := gzipMembers(dataTar); err == nil && len(ms) > 0 {
			o.Stamps = append(o.Stamps, stampObs{"gzip-header:data.tar.gz", ms[0].MTime})
		}
	}
	entries, _, err := readTar(plain)
	if err != nil {
		return fmt.Errorf("data tar: %w", err)
	}
	hasEnd, aligned = tarTrailer(plain)
	o.Struct["data_tar_complete"] = hasEnd && aligned
	o.Tars = append(o.Tars, tarPiece{"data.tar", true, plain})
	// deb(5): "PAX extensions are not supported" - dpkg rejects a member of type 'x' or 'g'
	o.Struct["data_tar_without_pax_headers"] = !bytes.ContainsAny(rawTarTypeflags(plain), "xg")
	o.Payload = entries
	for _, e := range entries {
		o.Stamps = append(o.Stamps, stampObs{"data:" + e.Path, e.MTime})
	}
	return nil
}

func decodeDeb(b []byte) (*pkgObs, error) {
	o := newObs("deb")
	ms, err := readAr(b)
	o.Members = ms
	if err != nil {
		return o, err
	}
	for _, m := range ms {
		o.Stamps = append(o.Stamps, stampObs{"ar:" + m.Name, m.MTime})
	}
	if len(ms) < 3 {
		return o, errors.New("deb: fewer than three members")
	}
	o.Struct["debian_binary_first"] = ms[0].Name == "debian-binary" && string(ms[0].Data) == "2.0\n"
	o.Struct["control_second"] = ms[1].Name == "control.tar.gz"
	kinds := map[string]string{"data.tar.gz": "gzip", "data.tar.xz": "xz", "data.tar.zst": "zstd", "data.tar": "none"}
	kind, ok := kinds[ms[2].Name]
	o.Struct["data_third"] = ok
	if !ok {
		return o, fmt.Errorf("deb: third member is %q", ms[2].Name)
	}
	o.Struct["data_name_matches_stream"] = sniff(ms[2].Data) == kind || (kind == "none" && sniff(ms[2].Data) == "none")
	if kind == "zstd" {
		win, ok := zstdFrameWindow(ms[2].Data)
		o.Struct["zstd_frame_header_readable"] = ok
		o.Struct["zstd_window_within_reference_decoder_limit"] = win <= zstdReferenceWindowLimit
	}
	o.Raw["debian-binary"], o.Raw["control.tar.gz"], o.Raw["data"] = ms[0].Data, ms[1].Data, ms[2].Data
	o.Raw["data-name"] = []byte(ms[2].Name)
	o.Struct["only_gpg_after_data"] = true
	for _, m := range ms[3:] {
		if strings.HasPrefix(m.Name, "_gpg") {
			o.SigMembers[m.Name] = m.Data
		} else {
			o.Struct["only_gpg_after_data"] = false
		}
	}
	if err := decodeDebLike(o, ms[1].Data, ms[2].Data, kind); err != nil {
		return o, err
	}
	return o, nil
}

// ---------- ipk ----------

func decodeIPK(b []byte) (*pkgObs, error) {
	o := newObs("ipk")
	outer, err := gunzipAll(b)
	if err != nil {
		return o, fmt.Errorf("ipk outer gzip: %w", err)
	}
	if ms, err := gzipMembers(b); err == nil && len(ms) > 0 {
		o.Stamps = append(o.Stamps, stampObs{"gzip-header:ipk", ms[0].MTime})
		o.Struct["single_gzip_member"] = len(ms) == 1
	}
	entries, data, err := readTar(outer)
	if err != nil {
		return o, err
	}
	hasEnd, aligned := tarTrailer(outer)
	o.Struct["outer_tar_complete"] = hasEnd && aligned
	o.Tars = append(o.Tars, tarPiece{"ipk", true, outer})
	for _, e := range entries {
		o.Members = append(o.Members, member{Name: e.Path, Size: e.Size, MTime: e.MTime, Data: data[e.Path]})
		o.Stamps = append(o.Stamps, stampObs{"outer:" + e.Path, e.MTime})
	}
	if len(entries) != 3 {
		return o, fmt.Errorf("ipk: %d outer members", len(entries))
	}
	o.Struct["debian_binary_first"] = entries[0].Path == "./debian-binary" && string(data[entries[0].Path]) == "2.0\n"
	o.Struct["control_second"] = entries[1].Path == "./control.tar.gz"
	o.Struct["data_third"] = entries[2].Path == "./data.tar.gz"
	if err := decodeDebLike(o, data[entries[1].Path], data[entries[2].Path], "gzip"); err != nil {
		return o, err
	}
	return o, nil
}

// ---------- apk ----------

func parsePkginfo(b []byte) []kv {
	var out []kv
	for _, l := range strings.Split(string(b), "\n") {
		if l == "" || strings.HasPrefix(l, "#") {
			continue
		}
		i := strings.Index(l, " = ")
		if i < 0 {
			// continuation of a multi-line value
			if len(out) > 0 {
				out[len(out)-1].V += "\n" + l
			}
			continue
		}
		out = append(out, kv{l[:i], l[i+3:]})
	}
	return out
}

func decodeAPK(b []byte) (*pkgObs, error) {
	o := newObs("apk")
	ms, err := gzipMembers(b)
	if err != nil {
		return o, fmt.Errorf("apk gzip members: %w", err)
	}
	for i, m := range ms {
		o.Stamps = append(o.Stamps, stampObs{fmt.Sprintf("gzip-header:segment%d", i), m.MTime})
	}
	if len(ms) != 2 && len(ms) != 3 {
		return o, fmt.Errorf("apk: %d gzip members", len(ms))
	}
	signed := len(ms) == 3
	o.Struct["signed"] = signed
	seg := ms
	names := []string{"control", "data"}
	if signed {
		names = []string{"signature", "control", "data"}
	}
	var concat []byte
	for i, m := range seg {
		hasEnd, aligned := tarTrailer(m.Plain)
		o.Members = append(o.Members, member{Name: names[i], Size: int64(len(m.Comp)), Data: m.Comp})
		o.Struct[names[i]+"_aligned_512"] = aligned
		o.Tars = append(o.Tars, tarPiece{names[i], names[i] == "data", m.Plain})
		if names[i] == "data" {
			o.Struct["data_has_end_marker"] = hasEnd
		} else {
			// a cut segment must not contain an end-of-archive marker: its last 1024 bytes are not all zero,
			// unless the segment is legitimately padded; decide by parsing: tar reader must not stop early
			o.Struct[names[i]+"_cut"] = !endsWithEndMarkerAfterEntries(m.Plain)
		}
		concat = append(concat, m.Plain...)
	}
	// the concatenation must read as ONE tar stream containing everything
	all, _, err := readTar(concat)
	if err != nil {
		return o, fmt.Errorf("apk concatenated tar: %w", err)
	}
	ci := 0
	if signed {
		sigEntries, sigData, err := readTar(seg[0].Plain)
		if err != nil || len(sigEntries) != 1 {
			return o, fmt.Errorf("apk signature segment: %v (%d entries)", err, len(sigEntries))
		}
		o.SigMembers[sigEntries[0].Path] = sigData[sigEntries[0].Path]
		o.Struct["signature_first"] = len(all) > 0 && all[0].Path == sigEntries[0].Path
		ci = 1
	}
	o.Raw["control-segment"] = seg[ci].Comp
	centries, cdata, err := readTar(seg[ci].Plain)
	if err != nil {
		return o, fmt.Errorf("apk control segment: %w", err)
	}
	o.Control = centries
	o.Struct["pkginfo_first"] = len(centries) > 0 && centries[0].Path == ".PKGINFO"
	for _, e := range centries {
		o.Stamps = append(o.Stamps, stampObs{"control:" + e.Path, e.MTime})
		if e.Path == ".PKGINFO" {
			o.Meta = parsePkginfo(cdata[e.Path])
			o.Raw["pkginfo"] = cdata[e.Path]
		} else {
			o.Scripts[e.Path] = cdata[e.Path]
			o.ScriptModes[e.Path] = e.Mode
			if e.PaxSHA1 != "" {
				o.Digests = append(o.Digests, digestObs{"apk.pax.sha1:" + e.Path, e.PaxSHA1, e.SHA1})
			}
		}
	}
	dentries, _, err := readTar(seg[ci+1].Plain)
	if err != nil {
		return o, fmt.Errorf("apk data segment: %w", err)
	}
	o.Payload = dentries
	var sum int64
	for _, e := range dentries {
		o.Stamps = append(o.Stamps, stampObs{"data:" + e.Path, e.MTime})
		if e.Kind == "file" {
			o.Digests = append(o.Digests, digestObs{"apk.pax.sha1:" + e.Path, e.PaxSHA1, e.SHA1})
			sum += e.Size
		}
		if e.Kind == "symlink" && e.PaxSHA1 != "" {
			o.Digests = append(o.Digests, digestObs{"apk.pax.sha1(link):" + e.Path, e.PaxSHA1, hexsum(sha1b, nil)})
		}
	}
	o.Struct["concat_is_one_tar"] = len(all) == len(centries)+len(dentries)+ci
	for _, f := range o.Meta {
		switch f.K {
		case "datahash":
			o.Digests = append(o.Digests, digestObs{"apk.datahash(sha256 of data segment as shipped)", f.V, hexsum(sha256b, seg[ci+1].Comp)})
		case "size":
			v, _ := strconv.ParseInt(f.V, 10, 64)
			o.Sizes = append(o.Sizes, sizeObs{"apk.size(sum of regular file sizes)", v, sum})
		}
	}
	return o, nil
}

// endsWithEndMarkerAfterEntries reports whether a raw tar segment contains an end-of-archive marker
// (two consecutive zero blocks at a block boundary following the last entry)
func endsWithEndMarkerAfterEntries(b []byte) bool {
	// walk the blocks: header blocks and data blocks; find position after last entry
	pos := 0
	for pos+512 <= len(b) {
		blk := b[pos : pos+512]
		allZero := true
		for _, c := range blk {
			if c != 0 {
				allZero = false
				break
			}
		}
		if allZero {
			// is the next block zero as well?
			if pos+1024 <= len(b) {
				z := true
				for _, c := range b[pos+512 : pos+1024] {
					if c != 0 {
						z = false
						break
					}
				}
				return z
			}
			return false
		}
		size, err := strconv.ParseInt(strings.Trim(string(blk[124:136]), " \x00"), 8, 64)
		if err != nil {
			return false
		}
		pos += 512 + int((size+511)/512)*512
	}
	return false
}

// ---------- archlinux ----------

// parseMtree reads the text by the rules of mtree(5): lines of blank-separated words, the first the path, the others
// keyword=value; a backslash and three octal digits stand for one byte in a path or link target. A word that is not
// keyword=value with a known keyword (a piece of a name that was split at a blank, say) makes the file malformed.
func parseMtree(b []byte) ([]mtreeLine, bool) {
	lines := strings.Split(strings.TrimRight(string(b), "\n"), "\n")
	if len(lines) == 0 || lines[0] != "#mtree" {
		return nil, false
	}
	ok := true
	var out []mtreeLine
	for _, l := range lines[1:] {
		f := strings.Split(l, " ")
		p, pok := mtreeUnquote(f[0])
		ok = ok && pok
		m := mtreeLine{Path: p, KV: map[string]string{}}
		for _, w := range f[1:] {
			j := strings.Index(w, "=")
			if j <= 0 || !isMtreeKey(w[:j+1]) {
				ok = false
				continue
			}
			v := w[j+1:]
			if w[:j] == "link" {
				var vok bool
				v, vok = mtreeUnquote(v)
				ok = ok && vok
			}
			m.KV[w[:j]] = v
		}
		out = append(out, m)
	}
	return out, ok
}

func mtreeUnquote(s string) (string, bool) {
	var b strings.Builder
	for i := 0; i < len(s); i++ {
		if s[i] != '\\' {
			b.WriteByte(s[i])
			continue
		}
		if i+3 >= len(s) {
			return b.String(), false
		}
		v, err := strconv.ParseUint(s[i+1:i+4], 8, 8)
		if err != nil {
			return b.String(), false
		}
		b.WriteByte(byte(v))
		i += 3
	}
	return b.String(), true
}

func isMtreeKey(s string) bool {
	for _, k := range []string{"time=", "mode=", "size=", "type=", "md5digest=", "sha256digest=", "link="} {
		if s == k {
			return true
		}
	}
	return false
}

func decodeArch(b []byte) (*pkgObs, error) {
	o := newObs("archlinux")
	o.Struct["zstd_stream"] = sniff(b) == "zstd"
	if win, ok := zstdFrameWindow(b); ok {
		o.Struct["zstd_window_within_reference_decoder_limit"] = win <= zstdReferenceWindowLimit
	}
	plain, err := decompress("zstd", b)
	if err != nil {
		return o, fmt.Errorf("archlinux zstd: %w", err)
	}
	entries, data, err := readTar(plain)
	if err != nil {
		return o, err
	}
	hasEnd, aligned := tarTrailer(plain)
	o.Struct["tar_complete"] = hasEnd && aligned
	o.Tars = append(o.Tars, tarPiece{"pkg.tar", true, plain})
	for _, e := range entries {
		o.Stamps = append(o.Stamps, stampObs{"tar:" + e.Path, e.MTime})
		switch e.Path {
		case ".PKGINFO":
			o.Meta = parsePkginfo(data[e.Path])
			o.Raw["pkginfo"] = data[e.Path]
			o.Members = append(o.Members, member{Name: e.Path, Size: e.Size, MTime: e.MTime})
			o.Control = append(o.Control, e)
		case ".MTREE":
			o.Members = append(o.Members, member{Name: e.Path, Size: e.Size, MTime: e.MTime})
			o.Control = append(o.Control, e)
			if ms, err := gzipMembers(data[e.Path]); err == nil && len(ms) > 0 {
				o.Stamps = append(o.Stamps, stampObs{"gzip-header:.MTREE", ms[0].MTime})
			}
			mt, err := gunzipAll(data[e.Path])
			if err != nil {
				return o, fmt.Errorf(".MTREE gzip: %w", err)
			}
			lines, ok := parseMtree(mt)
			o.Struct["mtree_header_and_every_word_wellformed"] = ok
			o.Mtree = lines
			o.Raw["mtree"] = mt
		case ".INSTALL":
			o.Members = append(o.Members, member{Name: e.Path, Size: e.Size, MTime: e.MTime})
			o.Control = append(o.Control, e)
			o.Raw["install"] = data[e.Path]
			o.Struct["has_install"] = true
		default:
			o.Payload = append(o.Payload, e)
		}
	}
	// .MTREE cross-check against what is actually in the tar
	byPath := map[string]pEntry{}
	for _, e := range entries {
		byPath["./"+e.Path] = e
	}
	o.Struct["mtree_pkginfo_first"] = len(o.Mtree) > 0 && o.Mtree[0].Path == "./.PKGINFO"
	for _, l := range o.Mtree {
		e, ok := byPath[l.Path]
		if !ok {
			o.Struct["mtree_entry_in_tar:"+l.Path] = false
			continue
		}
		if t, ok := l.KV["time"]; ok {
			v, _ := strconv.ParseInt(strings.TrimSuffix(t, ".0"), 10, 64)
			o.Stamps = append(o.Stamps, stampObs{"mtree:" + l.Path, v})
			o.Sizes = append(o.Sizes, sizeObs{"mtree.time:" + l.Path, v, e.MTime})
		}
		if m, ok := l.KV["mode"]; ok {
			v, _ := strconv.ParseInt(m, 8, 64)
			want := e.Mode
			if e.Kind == "symlink" {
				want = v // the tar header of a symlink carries no meaningful mode
			}
			o.Sizes = append(o.Sizes, sizeObs{"mtree.mode:" + l.Path, v, want})
		}
		wantType := map[string]string{"file": "file", "dir": "dir", "symlink": "link"}[e.Kind]
		o.Struct["mtree_type_matches:"+l.Path] = l.KV["type"] == wantType
		if e.Kind == "file" {
			s, _ := strconv.ParseInt(l.KV["size"], 10, 64)
			o.Sizes = append(o.Sizes, sizeObs{"mtree.size:" + l.Path, s, e.Size})
			o.Digests = append(o.Digests, digestObs{"mtree.md5:" + l.Path, l.KV["md5digest"], e.MD5})
			o.Digests = append(o.Digests, digestObs{"mtree.sha256:" + l.Path, l.KV["sha256digest"], e.SHA256})
		}
		if e.Kind == "symlink" {
			o.Struct["mtree_link_matches:"+l.Path] = l.KV["link"] == e.Link
		}
	}
	listed := map[string]bool{}
	for _, l := range o.Mtree {
		listed[l.Path] = true
	}
	o.Struct["mtree_lists_every_payload_entry_and_pkginfo"] = true
	for _, e := range entries {
		if e.Path == ".MTREE" || e.Path == ".INSTALL" {
			continue
		}
		if !listed["./"+e.Path] {
			o.Struct["mtree_lists_every_payload_entry_and_pkginfo"] = false
		}
	}
	o.Struct["mtree_line_count_matches"] = len(o.Mtree) == len(o.Payload)+1
	var sum int64
	for _, e := range o.Payload {
		if e.Kind == "file" {
			sum += e.Size
		}
	}
	for _, f := range o.Meta {
		if f.K == "size" {
			v, _ := strconv.ParseInt(f.V, 10, 64)
			o.Sizes = append(o.Sizes, sizeObs{"archlinux.size(sum of regular file sizes)", v, sum})
		}
		if f.K == "builddate" {
			v, _ := strconv.ParseInt(f.V, 10, 64)
			o.Stamps = append(o.Stamps, stampObs{"pkginfo.builddate", v})
		}
	}
	return o, nil
}

// decodePackage decodes with the format's reader and adds the facts every format shares
func decodePackage(format string, b []byte) (*pkgObs, error) {
	o, err := decodePackageOf(format, b)
	if o != nil {
		// nfpm never copies numeric owner ids from the build host: every member it writes says 0
		o.Struct["numeric_owner_ids_zero"] = true
		for _, l := range [][]pEntry{o.Payload, o.Control} {
			for _, e := range l {
				if e.Uid != 0 || e.Gid != 0 {
					o.Struct["numeric_owner_ids_zero"] = false
					o.Notes = append(o.Notes, fmt.Sprintf("member %s carries the numeric owner %d:%d (names %q:%q)", e.Path, e.Uid, e.Gid, e.Uname, e.Gname))
				}
			}
		}
	}
	return o, err
}

func decodePackageOf(format string, b []byte) (*pkgObs, error) {
	switch format {
	case "deb":
		return decodeDeb(b)
	case "rpm":
		return decodeRPM(b)
	case "apk":
		return decodeAPK(b)
	case "ipk":
		return decodeIPK(b)
	case "archlinux":
		return decodeArch(b)
	}
	return nil, fmt.Errorf("unknown format %s", format)
}
