package main

// C10 cases: signed packages of every kind. The signature is taken out of the package with the harness's own
// decoders and verified - with go-crypto / crypto/rsa and, independently, with gpg - over the bytes the format's
// verifier uses, taken from the package as stored. Callbacks record the bytes they are handed. Failing signers and
// invalid signature types must give an error that is a signing failure and still wraps the signer's error.

import (
	"bytes"
	"crypto"
	"crypto/md5"
	"crypto/rsa"
	"crypto/sha1"
	"crypto/x509"
	"encoding/hex"
	"encoding/json"
	"encoding/pem"
	"errors"
	"fmt"
	"io"
	"math/rand"
	"os"
	"os/exec"
	"path/filepath"
	"sort"
	"strings"
	"time"

	"github.com/ProtonMail/go-crypto/openpgp"
	"github.com/ProtonMail/go-crypto/openpgp/armor"
	"github.com/ProtonMail/go-crypto/openpgp/packet"
	"github.com/ProtonMail/go-crypto/openpgp/clearsign"
	"github.com/goreleaser/nfpm/v2"
)

type sigDesc struct {
	YAML    string      `json:"yaml"`
	Files   []extraFile `json:"files"`
	Format  string      `json:"format"`
	Variant string      `json:"variant"`
}

func testdata(name string) string { return filepath.Join(repoDir(), "internal/sign/testdata", name) }

const testPass = "hunter2"

var errBoom = errors.New("the signer says no")

type sigVariant struct {
	name   string
	format string
	tweak  func(info *nfpm.Info, rec *cbRecord)
	expect string // ok | signing-error | either
	ring   func() openpgp.EntityList // the public keys the signature must verify with (default: testdata/pubkey.asc)
	env    map[string]string         // process environment while packaging
}

// a second key pair, made once per run: for key files whose content changes between two packagings
var (
	otherKey     *openpgp.Entity
	otherKeyFile string
)

func otherKeyArmored() []byte {
	if otherKey == nil {
		e, err := openpgp.NewEntity("Verif Rotated", "", "rotated@example.com", nil)
		must(err)
		otherKey = e
	}
	var buf bytes.Buffer
	aw, err := armor.Encode(&buf, openpgp.PrivateKeyType, nil)
	must(err)
	must(otherKey.SerializePrivate(aw, nil))
	aw.Close()
	return buf.Bytes()
}

func otherPublicArmored() []byte {
	otherKeyArmored()
	var buf bytes.Buffer
	aw, err := armor.Encode(&buf, openpgp.PublicKeyType, nil)
	must(err)
	must(otherKey.Serialize(aw))
	aw.Close()
	return buf.Bytes()
}

// a passphrase-protected key with TWO signing subkeys, made once per run: a key id may name either of them
var (
	multiKey     *openpgp.Entity
	multiKeyIDs  []string
	multiKeyPass = "the multi-subkey passphrase"
)

func multiKeyArmored() []byte {
	if multiKey == nil {
		e, err := openpgp.NewEntity("Verif Multi", "", "multi@example.com", nil)
		must(err)
		must(e.AddSigningSubkey(nil))
		must(e.AddSigningSubkey(nil))
		for _, sk := range e.Subkeys {
			if sk.Sig != nil && sk.Sig.FlagsValid && sk.Sig.FlagSign {
				multiKeyIDs = append(multiKeyIDs, fmt.Sprintf("%x", sk.PublicKey.KeyId))
			}
		}
		multiKey = e
	}
	// serialise with every secret key encrypted under the passphrase (the self-signatures exist already)
	var pub bytes.Buffer
	must(multiKey.Serialize(&pub))
	var plain bytes.Buffer
	must(multiKey.SerializePrivateWithoutSigning(&plain, nil))
	el, err := openpgp.ReadKeyRing(bytes.NewReader(plain.Bytes()))
	must(err)
	locked := el[0]
	must(locked.PrivateKey.Encrypt([]byte(multiKeyPass)))
	for _, sk := range locked.Subkeys {
		if sk.PrivateKey != nil {
			must(sk.PrivateKey.Encrypt([]byte(multiKeyPass)))
		}
	}
	var buf bytes.Buffer
	aw, err := armor.Encode(&buf, openpgp.PrivateKeyType, nil)
	must(err)
	must(locked.SerializePrivateWithoutSigning(aw, nil))
	aw.Close()
	return buf.Bytes()
}

func multiPublicArmored() []byte {
	multiKeyArmored()
	var buf bytes.Buffer
	aw, err := armor.Encode(&buf, openpgp.PublicKeyType, nil)
	must(err)
	must(multiKey.Serialize(aw))
	aw.Close()
	return buf.Bytes()
}

// a key whose id, written in hex, holds decimal digits only (about one key in two thousand): a key id is hexadecimal
// whatever it looks like
var (
	decimalKey   *openpgp.Entity
	decimalKeyID string
)

func decimalKeyArmored() []byte {
	if decimalKey == nil {
		cfg := &packet.Config{Algorithm: packet.PubKeyAlgoEdDSA}
		for i := 0; i < 40000 && decimalKey == nil; i++ {
			e, err := openpgp.NewEntity("Verif Decimal", "", "decimal@example.com", cfg)
			must(err)
			id := fmt.Sprintf("%016x", e.PrimaryKey.KeyId)
			if !strings.ContainsAny(id, "abcdef") && id[0] != '0' {
				decimalKey, decimalKeyID = e, id
			}
		}
	}
	if decimalKey == nil {
		return nil
	}
	var buf bytes.Buffer
	aw, err := armor.Encode(&buf, openpgp.PrivateKeyType, nil)
	must(err)
	must(decimalKey.SerializePrivate(aw, nil))
	aw.Close()
	return buf.Bytes()
}

func decimalPublicArmored() []byte {
	if decimalKeyArmored() == nil {
		return nil
	}
	var buf bytes.Buffer
	aw, err := armor.Encode(&buf, openpgp.PublicKeyType, nil)
	must(err)
	must(decimalKey.Serialize(aw))
	aw.Close()
	return buf.Bytes()
}

type cbRecord struct {
	calls [][]byte
}

func pgpEntity(file, pass string) *openpgp.Entity {
	f, err := os.Open(file)
	must(err)
	defer f.Close()
	var el openpgp.EntityList
	if strings.HasSuffix(file, ".asc") {
		el, err = openpgp.ReadArmoredKeyRing(f)
	} else {
		el, err = openpgp.ReadKeyRing(f)
	}
	must(err)
	e := el[0]
	if pass != "" {
		if e.PrivateKey != nil && e.PrivateKey.Encrypted {
			must(e.PrivateKey.Decrypt([]byte(pass)))
		}
		for _, sk := range e.Subkeys {
			if sk.PrivateKey != nil && sk.PrivateKey.Encrypted {
				must(sk.PrivateKey.Decrypt([]byte(pass)))
			}
		}
	}
	return e
}

func rsaKey(file string) *rsa.PrivateKey {
	b, err := os.ReadFile(file)
	must(err)
	blk, _ := pem.Decode(b)
	if k, err := x509.ParsePKCS1PrivateKey(blk.Bytes); err == nil {
		return k
	}
	k, err := x509.ParsePKCS8PrivateKey(blk.Bytes)
	must(err)
	return k.(*rsa.PrivateKey)
}

func rsaPub(file string) *rsa.PublicKey {
	b, err := os.ReadFile(file)
	must(err)
	blk, _ := pem.Decode(b)
	k, err := x509.ParsePKIXPublicKey(blk.Bytes)
	must(err)
	return k.(*rsa.PublicKey)
}

func sigVariants() []sigVariant {
	var vs []sigVariant
	keyid := "bc8acdd415bd80b3"
	subid := "9890904dfb2ec88a"
	type pk struct {
		name, file, pass string
		id               *string
	}
	pgpKeys := []pk{
		{"armored", testdata("privkey_unprotected.asc"), "", nil},
		{"binary", testdata("privkey_unprotected.gpg"), "", nil},
		{"protected", testdata("privkey.asc"), testPass, nil},
		{"protected-binary", testdata("privkey.gpg"), testPass, nil},
		{"subkey", testdata("privkey_unprotected_subkey_only.asc"), "", nil},
		{"keyid", testdata("privkey_unprotected.asc"), "", &keyid},
		{"subkey-keyid", testdata("privkey_unprotected_subkey_only.asc"), "", &subid},
	}
	for _, k := range pgpKeys {
		k := k
		for _, typ := range []string{"", "origin", "maint", "archive"} {
			typ := typ
			if typ != "" && k.name != "armored" && k.name != "protected" {
				continue
			}
			vs = append(vs, sigVariant{name: "debsign-" + k.name + "-type=" + typ, format: "deb", tweak: func(info *nfpm.Info, _ *cbRecord) {
				info.Deb.Signature.KeyFile, info.Deb.Signature.KeyPassphrase, info.Deb.Signature.KeyID = k.file, k.pass, k.id
				info.Deb.Signature.Type = typ
			}, expect: "ok"})
		}
		for _, typ := range []string{"", "builder", "maint"} {
			typ := typ
			if typ != "" && k.name != "armored" {
				continue
			}
			vs = append(vs, sigVariant{name: "dpkgsig-" + k.name + "-type=" + typ, format: "deb", tweak: func(info *nfpm.Info, _ *cbRecord) {
				info.Deb.Signature.KeyFile, info.Deb.Signature.KeyPassphrase, info.Deb.Signature.KeyID = k.file, k.pass, k.id
				info.Deb.Signature.Method = "dpkg-sig"
				info.Deb.Signature.Type = typ
				info.Deb.Signature.Signer = "Verif Signer <signer@example.com>"
			}, expect: map[bool]string{true: "either", false: "ok"}[strings.HasPrefix(k.name, "subkey")]})
		}
		vs = append(vs, sigVariant{name: "rpm-" + k.name, format: "rpm", tweak: func(info *nfpm.Info, _ *cbRecord) {
			info.RPM.Signature.KeyFile, info.RPM.Signature.KeyPassphrase, info.RPM.Signature.KeyID = k.file, k.pass, k.id
		}, expect: "ok"})
	}
	// a type that differs from a valid one only by case or blanks is not a valid type: dpkg looks for _gpgorigin
	for _, typ := range []string{"Origin", "MAINT", "archive "} {
		typ := typ
		vs = append(vs, sigVariant{name: "debsign-type-near-miss=" + typ, format: "deb", tweak: func(info *nfpm.Info, _ *cbRecord) {
			info.Deb.Signature.KeyFile = testdata("privkey_unprotected.asc")
			info.Deb.Signature.Type = typ
		}, expect: "signing-error"})
	}
	// the key file is read when the package is signed: after its content changed, the new key signs
	for _, f := range []string{"deb", "rpm"} {
		f := f
		set := func(info *nfpm.Info, path string) {
			if f == "deb" {
				info.Deb.Signature.KeyFile = path
			} else {
				info.RPM.Signature.KeyFile = path
			}
		}
		vs = append(vs, sigVariant{name: f + "-rotating-key-1", format: f, tweak: func(info *nfpm.Info, _ *cbRecord) {
			b, err := os.ReadFile(testdata("privkey_unprotected.asc"))
			must(err)
			must(os.WriteFile("rotating.asc", b, 0o600))
			set(info, "rotating.asc")
		}, expect: "ok"})
		vs = append(vs, sigVariant{name: f + "-rotating-key-2", format: f, tweak: func(info *nfpm.Info, _ *cbRecord) {
			must(os.WriteFile("rotating.asc", otherKeyArmored(), 0o600))
			set(info, "rotating.asc")
		}, expect: "ok", ring: func() openpgp.EntityList { return openpgp.EntityList{otherKey} }})
	}
	// a protected key with two signing subkeys: the key id may select either (one of them is not the one a library
	// would pick by itself)
	for _, f := range []string{"deb", "rpm"} {
		for which := 0; which < 2; which++ {
			f, which := f, which
			vs = append(vs, sigVariant{name: fmt.Sprintf("%s-protected-key-second-signing-subkey-%d", f, which), format: f, tweak: func(info *nfpm.Info, _ *cbRecord) {
				must(os.WriteFile("multi.asc", multiKeyArmored(), 0o600))
				id := multiKeyIDs[which%len(multiKeyIDs)]
				if f == "deb" {
					info.Deb.Signature.KeyFile, info.Deb.Signature.KeyPassphrase, info.Deb.Signature.KeyID = "multi.asc", multiKeyPass, &id
				} else {
					info.RPM.Signature.KeyFile, info.RPM.Signature.KeyPassphrase, info.RPM.Signature.KeyID = "multi.asc", multiKeyPass, &id
				}
			}, expect: "ok", ring: func() openpgp.EntityList { multiKeyArmored(); return openpgp.EntityList{multiKey} }})
		}
	}
	for _, f := range []string{"deb", "rpm"} {
		f := f
		if decimalKeyArmored() == nil {
			break
		}
		vs = append(vs, sigVariant{name: f + "-key-id-of-decimal-digits-only", format: f, tweak: func(info *nfpm.Info, _ *cbRecord) {
			must(os.WriteFile("decimal.asc", decimalKeyArmored(), 0o600))
			id := decimalKeyID
			if f == "deb" {
				info.Deb.Signature.KeyFile, info.Deb.Signature.KeyID = "decimal.asc", &id
			} else {
				info.RPM.Signature.KeyFile, info.RPM.Signature.KeyID = "decimal.asc", &id
			}
		}, expect: "ok", ring: func() openpgp.EntityList { return openpgp.EntityList{decimalKey} }})
	}
	// an armored key file that does not begin with the armor line (a blank line from a CI secret, comment lines, an indented
	// first line): OpenPGP armor readers skip what precedes the header
	for pi, prefix := range []string{"\n", "# exported by the release pipeline\n# do not edit\n\n", "   "} {
		for _, v := range []struct{ name, format, method string }{{"debsign", "deb", ""}, {"dpkgsig", "deb", "dpkg-sig"}, {"rpm", "rpm", ""}} {
			pi, prefix, v := pi, prefix, v
			vs = append(vs, sigVariant{name: fmt.Sprintf("%s-armored-key-after-leading-text-%d", v.name, pi), format: v.format, tweak: func(info *nfpm.Info, _ *cbRecord) {
				b, err := os.ReadFile(testdata("privkey_unprotected.asc"))
				must(err)
				fn := fmt.Sprintf("leading-text-%d.asc", pi)
				must(os.WriteFile(fn, append([]byte(prefix), b...), 0o600))
				if v.format == "deb" {
					info.Deb.Signature.KeyFile, info.Deb.Signature.Method = fn, v.method
				} else {
					info.RPM.Signature.KeyFile = fn
				}
			}, expect: "ok"})
		}
	}
	// an invalid type is invalid whoever signs: a callback without any key file
	vs = append(vs, sigVariant{name: "debsign-callback-type-invalid", format: "deb", tweak: func(info *nfpm.Info, rec *cbRecord) {
		info.Deb.Signature.Type = "bogus"
		info.Deb.Signature.SignFn = func(r io.Reader) ([]byte, error) {
			data, _ := io.ReadAll(r)
			var sig bytes.Buffer
			err := openpgp.ArmoredDetachSign(&sig, pgpEntity(testdata("privkey_unprotected.asc"), ""), bytes.NewReader(data), nil)
			return sig.Bytes(), err
		}
	}, expect: "signing-error"})
	// a reproducible-builds environment: SOURCE_DATE_EPOCH far in the past, before the signing key was made
	for _, v := range []struct{ name, format, method string }{{"debsign-sde-1980", "deb", ""}, {"dpkgsig-sde-1980", "deb", "dpkg-sig"}, {"rpm-sde-1980", "rpm", ""}} {
		v := v
		vs = append(vs, sigVariant{name: v.name, format: v.format, env: map[string]string{"SOURCE_DATE_EPOCH": "315532800"}, tweak: func(info *nfpm.Info, _ *cbRecord) {
			if v.format == "deb" {
				info.Deb.Signature.KeyFile, info.Deb.Signature.Method = testdata("privkey_unprotected.asc"), v.method
			} else {
				info.RPM.Signature.KeyFile = testdata("privkey_unprotected.asc")
			}
		}, expect: "ok"})
	}
	// the package mtime itself before the signing key was made (a release date, the last commit) or far in the future: a
	// signature is made NOW, whatever time the package's members carry
	for _, when := range []struct {
		tag string
		t   int64
	}{{"mtime-1980", 315532800}, {"mtime-2100", 4102444800}} {
		for _, v := range []struct{ name, format, method string }{{"debsign-", "deb", ""}, {"dpkgsig-", "deb", "dpkg-sig"}, {"rpm-", "rpm", ""}} {
			v, when := v, when
			vs = append(vs, sigVariant{name: v.name + when.tag, format: v.format, tweak: func(info *nfpm.Info, _ *cbRecord) {
				info.MTime = time.Unix(when.t, 0).UTC()
				if v.format == "deb" {
					info.Deb.Signature.KeyFile, info.Deb.Signature.Method = testdata("privkey_unprotected.asc"), v.method
				} else {
					info.RPM.Signature.KeyFile = testdata("privkey_unprotected.asc")
				}
			}, expect: "ok"})
		}
	}
	vs = append(vs, sigVariant{name: "debsign-type-invalid", format: "deb", tweak: func(info *nfpm.Info, _ *cbRecord) {
		info.Deb.Signature.KeyFile = testdata("privkey_unprotected.asc")
		info.Deb.Signature.Type = "bogus"
	}, expect: "signing-error"})
	vs = append(vs, sigVariant{name: "debsign-wrong-passphrase", format: "deb", tweak: func(info *nfpm.Info, _ *cbRecord) {
		info.Deb.Signature.KeyFile, info.Deb.Signature.KeyPassphrase = testdata("privkey.asc"), "not the passphrase"
	}, expect: "signing-error"})
	vs = append(vs, sigVariant{name: "rpm-wrong-passphrase", format: "rpm", tweak: func(info *nfpm.Info, _ *cbRecord) {
		info.RPM.Signature.KeyFile, info.RPM.Signature.KeyPassphrase = testdata("privkey.asc"), "not the passphrase"
	}, expect: "signing-error"})
	// callbacks: record what they are handed, sign it with the harness's own code
	ent := func() *openpgp.Entity { return pgpEntity(testdata("privkey_unprotected.asc"), "") }
	vs = append(vs, sigVariant{name: "debsign-callback", format: "deb", tweak: func(info *nfpm.Info, rec *cbRecord) {
		info.Deb.Signature.SignFn = func(r io.Reader) ([]byte, error) {
			data, _ := io.ReadAll(r)
			rec.calls = append(rec.calls, data)
			var sig bytes.Buffer
			err := openpgp.ArmoredDetachSign(&sig, ent(), bytes.NewReader(data), nil)
			return sig.Bytes(), err
		}
	}, expect: "ok"})
	// a callback that answers with a binary (not armored) signature whose last byte happens to be a blank, a tab or a line
	// break (one signature in forty ends so; here the signing time is moved until one does): it is the signature, to the byte
	vs = append(vs, sigVariant{name: "debsign-callback-binary-ending-in-a-blank", format: "deb", tweak: func(info *nfpm.Info, rec *cbRecord) {
		info.Deb.Signature.SignFn = func(r io.Reader) ([]byte, error) {
			data, _ := io.ReadAll(r)
			rec.calls = append(rec.calls, data)
			var last []byte
			for i := 0; i < 4000; i++ {
				var sig bytes.Buffer
				at := time.Unix(1700000000+int64(i), 0)
				if err := openpgp.DetachSign(&sig, ent(), bytes.NewReader(data), &packet.Config{Time: func() time.Time { return at }}); err != nil {
					return nil, err
				}
				last = sig.Bytes()
				if strings.IndexByte("\t\n\v\f\r ", last[len(last)-1]) >= 0 {
					break
				}
			}
			return last, nil
		}
	}, expect: "ok"})
	vs = append(vs, sigVariant{name: "dpkgsig-callback", format: "deb", tweak: func(info *nfpm.Info, rec *cbRecord) {
		info.Deb.Signature.Method = "dpkg-sig"
		info.Deb.Signature.SignFn = func(r io.Reader) ([]byte, error) {
			data, _ := io.ReadAll(r)
			rec.calls = append(rec.calls, data)
			var sig bytes.Buffer
			wc, err := clearsign.Encode(&sig, ent().PrivateKey, nil)
			if err != nil {
				return nil, err
			}
			wc.Write(data)
			wc.Close()
			return sig.Bytes(), nil
		}
	}, expect: "ok"})
	vs = append(vs, sigVariant{name: "rpm-callback", format: "rpm", tweak: func(info *nfpm.Info, rec *cbRecord) {
		info.RPM.Signature.SignFn = func(r io.Reader) ([]byte, error) {
			data, _ := io.ReadAll(r)
			rec.calls = append(rec.calls, data)
			var sig bytes.Buffer
			err := openpgp.DetachSign(&sig, ent(), bytes.NewReader(data), nil)
			return sig.Bytes(), err
		}
	}, expect: "ok"})
	for _, f := range []string{"deb", "rpm", "apk"} {
		f := f
		vs = append(vs, sigVariant{name: f + "-callback-fails", format: f, tweak: func(info *nfpm.Info, rec *cbRecord) {
			fn := func(r io.Reader) ([]byte, error) { return nil, errBoom }
			switch f {
			case "deb":
				info.Deb.Signature.SignFn = fn
			case "rpm":
				info.RPM.Signature.SignFn = fn
			case "apk":
				info.APK.Signature.SignFn = fn
				info.APK.Signature.KeyName = "verif"
			}
		}, expect: "signing-error"})
	}
	// a callback that fails the first time it is asked - after reading what it was handed - and works from then on:
	// either the packaging fails as a signing failure, or whatever signature ends up in the package verifies
	for _, v := range []struct{ name, format, method string }{{"debsign-callback-fails-once", "deb", ""}, {"dpkgsig-callback-fails-once", "deb", "dpkg-sig"}, {"rpm-callback-fails-once", "rpm", ""}} {
		v := v
		vs = append(vs, sigVariant{name: v.name, format: v.format, tweak: func(info *nfpm.Info, rec *cbRecord) {
			asked := 0
			fn := func(r io.Reader) ([]byte, error) {
				data, _ := io.ReadAll(r)
				asked++
				if asked == 1 {
					return nil, errBoom
				}
				rec.calls = append(rec.calls, data)
				var sig bytes.Buffer
				switch {
				case v.method == "dpkg-sig":
					wc, err := clearsign.Encode(&sig, ent().PrivateKey, nil)
					if err != nil {
						return nil, err
					}
					wc.Write(data)
					wc.Close()
					return sig.Bytes(), nil
				case v.format == "deb":
					err := openpgp.ArmoredDetachSign(&sig, ent(), bytes.NewReader(data), nil)
					return sig.Bytes(), err
				}
				err := openpgp.DetachSign(&sig, ent(), bytes.NewReader(data), nil)
				return sig.Bytes(), err
			}
			if v.format == "deb" {
				info.Deb.Signature.Method, info.Deb.Signature.SignFn = v.method, fn
			} else {
				info.RPM.Signature.SignFn = fn
			}
		}, expect: "either"})
	}
	// a key id the key file does not hold: a signing failure like any other, or a signature that verifies all the same
	for _, v := range []struct{ name, format, method string }{{"debsign-keyid-not-in-file", "deb", ""}, {"dpkgsig-keyid-not-in-file", "deb", "dpkg-sig"}, {"rpm-keyid-not-in-file", "rpm", ""}} {
		v := v
		vs = append(vs, sigVariant{name: v.name, format: v.format, tweak: func(info *nfpm.Info, _ *cbRecord) {
			absent := "bc8acdd415bd80b4"
			if v.format == "deb" {
				info.Deb.Signature.KeyFile, info.Deb.Signature.Method, info.Deb.Signature.KeyID = testdata("privkey_unprotected.asc"), v.method, &absent
			} else {
				info.RPM.Signature.KeyFile, info.RPM.Signature.KeyID = testdata("privkey_unprotected.asc"), &absent
			}
			// (dpkg-sig ignores the key id and signs with the primary key: the signature verifies with the key file's
			// public key, which is all the property asks; debsign and rpm refuse - then as a signing failure)
		}, expect: "either"})
	}
	// a callback AND a key file: the callback is the signer (it is what the documentation of SignFn says), and it is
	// handed the bytes the stored signature covers
	vs = append(vs, sigVariant{name: "debsign-callback-and-keyfile", format: "deb", tweak: func(info *nfpm.Info, rec *cbRecord) {
		info.Deb.Signature.KeyFile = testdata("privkey_unprotected.asc")
		info.Deb.Signature.SignFn = func(r io.Reader) ([]byte, error) {
			data, _ := io.ReadAll(r)
			rec.calls = append(rec.calls, data)
			var sig bytes.Buffer
			err := openpgp.ArmoredDetachSign(&sig, ent(), bytes.NewReader(data), nil)
			return sig.Bytes(), err
		}
	}, expect: "ok"})
	vs = append(vs, sigVariant{name: "rpm-callback-and-keyfile", format: "rpm", tweak: func(info *nfpm.Info, rec *cbRecord) {
		info.RPM.Signature.KeyFile = testdata("privkey_unprotected.asc")
		info.RPM.Signature.SignFn = func(r io.Reader) ([]byte, error) {
			data, _ := io.ReadAll(r)
			rec.calls = append(rec.calls, data)
			var sig bytes.Buffer
			err := openpgp.DetachSign(&sig, ent(), bytes.NewReader(data), nil)
			return sig.Bytes(), err
		}
	}, expect: "ok"})
	vs = append(vs, sigVariant{name: "apk-callback-and-keyfile", format: "apk", tweak: func(info *nfpm.Info, rec *cbRecord) {
		info.APK.Signature.KeyName = "cb"
		info.APK.Signature.KeyFile = testdata("rsa_unprotected.priv")
		info.APK.Signature.SignFn = func(r io.Reader) ([]byte, error) {
			data, _ := io.ReadAll(r)
			rec.calls = append(rec.calls, data)
			return rsa.SignPKCS1v15(nil, rsaKey(testdata("rsa_unprotected.priv")), crypto.SHA1, data)
		}
	}, expect: "ok"})
	// key files at the edges: one that exists and is empty (a signing failure, not a crash), one reached through a
	// symbolic link (a key like any other)
	for _, v := range []struct{ name, format, method string }{{"debsign", "deb", ""}, {"dpkgsig", "deb", "dpkg-sig"}, {"rpm", "rpm", ""}, {"apk", "apk", ""}} {
		v := v
		set := func(info *nfpm.Info, path string) {
			switch v.format {
			case "deb":
				info.Deb.Signature.KeyFile, info.Deb.Signature.Method = path, v.method
			case "rpm":
				info.RPM.Signature.KeyFile = path
			case "apk":
				info.APK.Signature.KeyFile, info.APK.Signature.KeyName = path, "verif"
			}
		}
		vs = append(vs, sigVariant{name: v.name + "-keyfile-empty", format: v.format, tweak: func(info *nfpm.Info, _ *cbRecord) {
			must(os.WriteFile("empty.key", nil, 0o600))
			set(info, "empty.key")
		}, expect: "signing-error"})
		vs = append(vs, sigVariant{name: v.name + "-keyfile-symlink", format: v.format, tweak: func(info *nfpm.Info, _ *cbRecord) {
			real := testdata("privkey_unprotected.asc")
			if v.format == "apk" {
				real = testdata("rsa_unprotected.priv")
			}
			os.Remove("current.key")
			must(os.Symlink(real, "current.key"))
			set(info, "current.key")
		}, expect: "ok"})
	}
	type rk struct{ name, file, pass string }
	for _, k := range []rk{{"rsa", testdata("rsa_unprotected.priv"), ""}, {"rsa-protected", testdata("rsa.priv"), testPass}, {"rsa-pkcs8", testdata("rsa_pkcs8.priv"), testPass}} {
		k := k
		kns := []string{"", "verif", "named.rsa.pub"}
		if k.name == "rsa" {
			// names in which ".pub" / ".rsa" are not an extension to be completed
			kns = append(kns, "ops@example.pub", "key.rsa", "a.pub.rsa", "pkg+release@example.com", "team key (2026)")
		}
		for _, kn := range kns {
			kn := kn
			vs = append(vs, sigVariant{name: "apk-" + k.name + "-keyname=" + strings.NewReplacer(" ", "_", "(", "_", ")", "_").Replace(kn), format: "apk", tweak: func(info *nfpm.Info, _ *cbRecord) {
				info.APK.Signature.KeyFile, info.APK.Signature.KeyPassphrase, info.APK.Signature.KeyName = k.file, k.pass, kn
			}, expect: "ok"})
		}
	}
	// the key FILE's name says nothing about the key NAME (abuild-keygen calls its files <name>.rsa)
	for _, fn := range []string{"ci-signing.rsa", "packager-5f3a9c1e.rsa", "key.rsa.pub"} {
		for _, kn := range []string{"", "explicit"} {
			fn, kn := fn, kn
			vs = append(vs, sigVariant{name: "apk-key-file-named-" + fn + "-keyname=" + kn, format: "apk", tweak: func(info *nfpm.Info, _ *cbRecord) {
				b, err := os.ReadFile(testdata("rsa_unprotected.priv"))
				must(err)
				must(os.WriteFile(fn, b, 0o600))
				info.APK.Signature.KeyFile, info.APK.Signature.KeyName = fn, kn
				if info.Maintainer == "" || !strings.Contains(info.Maintainer, "@") {
					info.Maintainer = "Release Team <releases@example.com>"
				}
			}, expect: "ok"})
		}
	}
	vs = append(vs, sigVariant{name: "apk-callback", format: "apk", tweak: func(info *nfpm.Info, rec *cbRecord) {
		info.APK.Signature.KeyName = "cb"
		info.APK.Signature.SignFn = func(r io.Reader) ([]byte, error) {
			data, _ := io.ReadAll(r)
			rec.calls = append(rec.calls, data)
			return rsa.SignPKCS1v15(nil, rsaKey(testdata("rsa_unprotected.priv")), crypto.SHA1, data)
		}
	}, expect: "ok"})
	vs = append(vs, sigVariant{name: "apk-wrong-passphrase", format: "apk", tweak: func(info *nfpm.Info, _ *cbRecord) {
		info.APK.Signature.KeyFile, info.APK.Signature.KeyPassphrase, info.APK.Signature.KeyName = testdata("rsa.priv"), "nope", "verif"
	}, expect: "signing-error"})
	return vs
}

// ---- gpg, as the independent implementation ----
var gpgHome string

func gpgSetup(dir string) {
	if _, err := exec.LookPath("gpg"); err != nil {
		return
	}
	home := filepath.Join(dir, "gnupg")
	must(os.MkdirAll(home, 0o700))
	cmd := exec.Command("gpg", "--batch", "--quiet", "--homedir", home, "--import", testdata("pubkey.asc"))
	if cmd.Run() == nil {
		gpgHome = home
		other := filepath.Join(dir, "other.pub.asc")
		must(os.WriteFile(other, otherPublicArmored(), 0o644))
		exec.Command("gpg", "--batch", "--quiet", "--homedir", home, "--import", other).Run()
		multi := filepath.Join(dir, "multi.pub.asc")
		must(os.WriteFile(multi, multiPublicArmored(), 0o644))
		exec.Command("gpg", "--batch", "--quiet", "--homedir", home, "--import", multi).Run()
		if pub := decimalPublicArmored(); pub != nil {
			dec := filepath.Join(dir, "decimal.pub.asc")
			must(os.WriteFile(dec, pub, 0o644))
			exec.Command("gpg", "--batch", "--quiet", "--homedir", home, "--import", dec).Run()
		}
	}
}

// gpgVerify: "1" verified, "0" rejected, "-" gpg not available. A bad signature is rejected every time and in every
// keyring; a transient failure of the gpg process or of its home directory is not: a rejection is confirmed in a
// freshly made home directory before it is reported.
var gpgLastOutput string

func gpgVerifyIn(home string, sig, data []byte) bool {
	dir, err := os.MkdirTemp("", "verif-gpg-")
	must(err)
	defer os.RemoveAll(dir)
	sp := filepath.Join(dir, "sig")
	must(os.WriteFile(sp, sig, 0o600))
	args := []string{"--batch", "--quiet", "--homedir", home, "--trust-model", "always", "--verify", sp}
	if data != nil {
		dp := filepath.Join(dir, "data")
		must(os.WriteFile(dp, data, 0o600))
		args = append(args, dp)
	}
	for attempt := 0; attempt < 3; attempt++ {
		out, err := exec.Command("gpg", args...).CombinedOutput()
		if err == nil {
			return true
		}
		gpgLastOutput = string(out)
	}
	return false
}

func gpgVerify(sig, data []byte) string {
	if gpgHome == "" {
		return "-"
	}
	if gpgVerifyIn(gpgHome, sig, data) {
		return "1"
	}
	fresh, err := os.MkdirTemp("", "verif-gpghome-")
	must(err)
	defer os.RemoveAll(fresh)
	os.Chmod(fresh, 0o700)
	exec.Command("gpg", "--batch", "--quiet", "--homedir", fresh, "--import", testdata("pubkey.asc")).Run()
	other := filepath.Join(fresh, "other.pub.asc")
	os.WriteFile(other, otherPublicArmored(), 0o644)
	exec.Command("gpg", "--batch", "--quiet", "--homedir", fresh, "--import", other).Run()
	multi := filepath.Join(fresh, "multi.pub.asc")
	os.WriteFile(multi, multiPublicArmored(), 0o644)
	exec.Command("gpg", "--batch", "--quiet", "--homedir", fresh, "--import", multi).Run()
	if pub := decimalPublicArmored(); pub != nil {
		dec := filepath.Join(fresh, "decimal.pub.asc")
		os.WriteFile(dec, pub, 0o644)
		exec.Command("gpg", "--batch", "--quiet", "--homedir", fresh, "--import", dec).Run()
	}
	if gpgVerifyIn(fresh, sig, data) {
		return "1"
	}
	if dump := os.Getenv("VERIF_DUMP"); dump != "" {
		os.WriteFile(filepath.Join(dump, "gpg-sig"), sig, 0o644)
		os.WriteFile(filepath.Join(dump, "gpg-out"), []byte(gpgLastOutput), 0o644)
	}
	return "0"
}

// rearmorClearsigned rewrites the signature block of a cleartext-signed message with the optional CRC-24 line that
// go-crypto's clearsign omits; the signed text and the signature packets stay as they are
func rearmorClearsigned(msg []byte) []byte {
	blk, _ := clearsign.Decode(msg)
	if blk == nil {
		return nil
	}
	i := bytes.Index(msg, []byte("-----BEGIN PGP SIGNATURE-----"))
	if i < 0 {
		return nil
	}
	packets, err := io.ReadAll(blk.ArmoredSignature.Body)
	if err != nil {
		return nil
	}
	var buf bytes.Buffer
	buf.Write(msg[:i])
	aw, err := armor.Encode(&buf, "PGP SIGNATURE", nil)
	if err != nil {
		return nil
	}
	aw.Write(packets)
	aw.Close()
	buf.WriteString("\n")
	return buf.Bytes()
}

func pubRing() openpgp.EntityList {
	f, err := os.Open(testdata("pubkey.asc"))
	must(err)
	defer f.Close()
	el, err := openpgp.ReadArmoredKeyRing(f)
	must(err)
	return el
}

var unsignedOK = map[string]bool{}

type c10Stats struct {
	cases, verified, callbacks, failures int
	variants                            map[string]int
	distinct                            map[string]struct{}
	samples                             []string
}

func runC10Case(w *caseWriter, id string, d sigDesc, variants map[string]sigVariant, st *c10Stats) {
	writeDesc(id, d)
	writeExtraFiles(d.Files)
	defer removeExtraFiles(d.Files)
	v, ok := variants[d.Variant]
	w.line("scase %s %s %s", id, xs(d.Format), xs(d.Variant))
	if !ok {
		w.line("send")
		return
	}
	// outside the premise: a configuration the format rejects even without signing (platform, package name)
	bk := hexsum(sha256b, []byte(d.YAML)) + "|" + d.Format
	if _, seen := unsignedOK[bk]; !seen {
		unsignedOK[bk] = packageInto(d.YAML, d.Format, io.Discard, nil) == nil
	}
	if !unsignedOK[bk] {
		w.line("sskip unsigned-build-fails")
		w.line("send")
		return
	}
	st.cases++
	st.variants[strings.SplitN(d.Variant, "-", 2)[0]]++
	rec := &cbRecord{}
	var out bytes.Buffer
	var info0 *nfpm.Info
	for k, val := range v.env {
		os.Setenv(k, val)
	}
	err := packageInto(d.YAML, d.Format, &out, func(info *nfpm.Info) { v.tweak(info, rec); info0 = info })
	for k := range v.env {
		os.Unsetenv(k)
	}
	w.line("sexpect %s %d", xs(v.expect), b2i(strings.HasSuffix(v.name, "callback-fails")))
	if err != nil {
		var se *nfpm.ErrSigningFailure
		w.line("sres err %d %d %s", b2i(errors.As(err, &se)), b2i(errors.Is(err, errBoom)), xs(err.Error()))
		w.line("send")
		st.failures++
		return
	}
	w.line("sres ok 0 0 x")
	o, derr := decodePackage(d.Format, out.Bytes())
	if o == nil {
		w.line("sdecode err %s", xs(fmt.Sprint(derr)))
		w.line("send")
		return
	}
	ring := pubRing()
	if v.ring != nil {
		ring = v.ring()
	}
	var names []string
	for n := range o.SigMembers {
		names = append(names, n)
	}
	sort.Strings(names)
	switch d.Format {
	case "deb":
		signed := append(append(append([]byte{}, o.Raw["debian-binary"]...), o.Raw["control.tar.gz"]...), o.Raw["data"]...)
		w.line("sdebtype %s %s", xs(info0.Deb.Signature.Type), xs(info0.Deb.Signature.Method))
		last := ""
		if len(o.Members) > 0 {
			last = o.Members[len(o.Members)-1].Name
		}
		w.line("slast %s %d", xs(last), len(o.Members))
		for _, n := range names {
			sig := o.SigMembers[n]
			if info0.Deb.Signature.Method == "dpkg-sig" {
				blk, _ := clearsign.Decode(sig)
				gok := false
				var body []byte
				if blk != nil {
					body = blk.Plaintext
					_, e := openpgp.CheckDetachedSignature(ring, bytes.NewReader(blk.Bytes), blk.ArmoredSignature.Body, nil)
					gok = e == nil
				}
				gv := gpgVerify(sig, nil)
				if gv == "0" && gok {
					// gpg 2.2 cannot find the end of an armor block that has neither "=" padding nor a CRC line
					if re := rearmorClearsigned(sig); re != nil && gpgVerify(re, nil) == "1" {
						gv = "A"
					}
				}
				w.line("sverify %s %d %s", xs(n), b2i(gok), gv)
				// the manifest against the members as stored
				for _, m := range o.Members[:min(3, len(o.Members))] {
					line := fmt.Sprintf("\t%x %x %d %s", md5.Sum(m.Data), sha1.Sum(m.Data), len(m.Data), m.Name)
					w.line("smanifest %s %d", xs(m.Name), b2i(bytes.Contains(body, []byte(line+"\n"))))
				}
				role := ""
				for _, l := range strings.Split(string(body), "\n") {
					if strings.HasPrefix(l, "Role:") {
						role = strings.TrimSpace(strings.TrimPrefix(l, "Role:"))
					}
				}
				w.line("srole %s", xs(role))
			} else {
				var e error
				if bytes.HasPrefix(bytes.TrimSpace(sig), []byte("-----BEGIN")) {
					_, e = openpgp.CheckArmoredDetachedSignature(ring, bytes.NewReader(signed), bytes.NewReader(sig), nil)
				} else {
					_, e = openpgp.CheckDetachedSignature(ring, bytes.NewReader(signed), bytes.NewReader(sig), nil)
				}
				w.line("sverify %s %d %s", xs(n), b2i(e == nil), gpgVerify(sig, signed))
			}
			st.verified++
		}
		if len(rec.calls) > 0 || info0.Deb.Signature.SignFn != nil {
			want := signed
			if info0.Deb.Signature.Method == "dpkg-sig" && len(names) > 0 {
				// the callback is handed the manifest: it must be the text the signature member carries
				if blk, _ := clearsign.Decode(o.SigMembers[names[0]]); blk != nil {
					want = blk.Plaintext
				}
				same := len(rec.calls) == 1 && bytes.Equal(stripLineEnds(rec.calls[0]), stripLineEnds(want))
				w.line("scallback %d %d", len(rec.calls), b2i(same))
				if !same && len(rec.calls) == 1 {
					w.line("snote %s %s", xs(string(rec.calls[0])), xs(string(want)))
				}
			} else {
				w.line("scallback %d %d", len(rec.calls), b2i(len(rec.calls) == 1 && bytes.Equal(rec.calls[0], want)))
			}
			st.callbacks++
		}
	case "rpm":
		hdr, payload := o.Raw["header"], o.Raw["payload"]
		for _, n := range names {
			sig := o.SigMembers[n]
			data := hdr
			if strings.Contains(n, "payload") {
				data = append(append([]byte{}, hdr...), payload...)
			}
			_, e := openpgp.CheckDetachedSignature(ring, bytes.NewReader(data), bytes.NewReader(sig), nil)
			w.line("sverify %s %d %s", xs(n), b2i(e == nil), gpgVerify(sig, data))
			st.verified++
		}
		if len(rec.calls) > 0 || info0.RPM.Signature.SignFn != nil {
			full := append(append([]byte{}, hdr...), payload...)
			okc := len(rec.calls) == 2 && bytes.Equal(rec.calls[0], hdr) && bytes.Equal(rec.calls[1], full)
			w.line("scallback %d %d", len(rec.calls), b2i(okc))
			st.callbacks++
		}
	case "apk":
		seg := o.Raw["control-segment"]
		digest := sha1.Sum(seg)
		pub := rsaPub(testdata("rsa_unprotected.pub"))
		if strings.Contains(d.Variant, "protected") {
			pub = rsaPub(testdata("rsa.pub"))
		}
		if strings.Contains(d.Variant, "pkcs8") {
			pub = rsaPub(testdata("rsa_pkcs8.pub"))
		}
		// the first gzip segment must be the signature segment, and its single member carries the name
		first := ""
		if len(o.Members) > 0 {
			first = o.Members[0].Name
			if first == "signature" && len(names) == 1 {
				first = names[0]
			}
		}
		w.line("sapkname %s %s %s %s", xs(info0.APK.Signature.KeyName), xs(info0.Maintainer), xs(first), xs(strings.Join(names, ",")))
		for _, n := range names {
			e := rsa.VerifyPKCS1v15(pub, crypto.SHA1, digest[:], o.SigMembers[n])
			w.line("sverify %s %d -", xs(n), b2i(e == nil))
			st.verified++
		}
		if len(rec.calls) > 0 || info0.APK.Signature.SignFn != nil {
			w.line("scallback %d %d", len(rec.calls), b2i(len(rec.calls) == 1 && bytes.Equal(rec.calls[0], digest[:])))
			st.callbacks++
		}
	}
	w.line("ssigs %d %s", len(names), xs(strings.Join(names, ",")))
	w.line("send")
	_ = hex.EncodeToString
}

// a cleartext signature does not cover trailing blanks of a line (RFC 4880, 7.1)
func stripLineEnds(b []byte) []byte {
	ls := strings.Split(strings.TrimSpace(string(b)), "\n")
	for i := range ls {
		ls[i] = strings.TrimRight(ls[i], " \t\r")
	}
	return []byte(strings.Join(ls, "\n"))
}

func cmdC10(tier string, seed int64, out, statsOut, replay string) {
	work, cleanup := pkgWorkdir()
	defer cleanup()
	gpgSetup(work)
	w := newCaseWriter(out)
	st := &c10Stats{variants: map[string]int{}, distinct: map[string]struct{}{}}
	variants := map[string]sigVariant{}
	var order []sigVariant
	for _, v := range sigVariants() {
		variants[v.name] = v
		order = append(order, v)
	}
	// hand-written documents that configure the signing themselves (nothing is changed after parsing)
	variants["as-the-document-says"] = sigVariant{name: "as-the-document-says", format: "deb", tweak: func(*nfpm.Info, *cbRecord) {}, expect: "ok"}
	variants["as-the-document-says-invalid"] = sigVariant{name: "as-the-document-says-invalid", format: "deb", tweak: func(*nfpm.Info, *cbRecord) {}, expect: "signing-error"}
	if replay != "" {
		readDescs(replay, func(id string, raw json.RawMessage) {
			var d sigDesc
			must(json.Unmarshal(raw, &d))
			runC10Case(w, id, d, variants, st)
		})
		w.close()
		writeJSON(statsOut, map[string]any{"cases": st.cases})
		return
	}
	// the signature type at the top and another one in the deb block of the deb override block: the override's counts
	for mi, method := range []string{"debsign", "dpkg-sig"} {
		for ti, typ := range []string{"archive", "origin", "release-manager"} {
			doc := "name: sigdoc\narch: amd64\nversion: 1.0.0\nmaintainer: M <m@example.com>\ndeb:\n  signature:\n    key_file: " + testdata("privkey_unprotected.asc") +
				"\n    method: " + method + "\n    type: maint\noverrides:\n  deb:\n    deb:\n      signature:\n        type: " + typ + "\n"
			vn := "as-the-document-says"
			if typ == "release-manager" && method == "dpkg-sig" {
				doc = strings.Replace(doc, "type: release-manager", "type: relmgr", 1) // dpkg-sig: the type is a free role name
			} else if typ == "release-manager" {
				vn = "as-the-document-says-invalid"
			}
			runC10Case(w, fmt.Sprintf("sigdoc-%d-%d", mi, ti), sigDesc{YAML: doc, Format: "deb", Variant: vn}, variants, st)
		}
	}
	g := &pkgGen{rng: rand.New(rand.NewSource(seed))}
	n := 2
	if tier != "quick" {
		n = 12
	}
	for i := 0; i < n; i++ {
		gen := g.config(i)
		c := &gen.cfg
		c.Deb.Signature.KeyFile, c.RPM.Signature.KeyFile, c.APK.Signature.KeyFile = "", "", ""
		c.Platform = "" // every format must be able to package the configuration unsigned
		if i%2 == 1 {
			c.Deb.Compression = []string{"xz", "zstd", "none"}[(i/2)%3]
		}
		if c.Maintainer == "" {
			c.Maintainer = "Foo Bar <foo@example.com>"
		}
		doc := marshalConfig(c)
		for _, v := range order {
			d := sigDesc{YAML: doc, Files: gen.files, Format: v.format, Variant: v.name}
			runC10Case(w, fmt.Sprintf("sig-%d-%s", i, v.name), d, variants, st)
			st.distinct[fmt.Sprintf("%d-%s", i, v.name)] = struct{}{}
		}
	}
	w.close()
	writeJSON(statsOut, map[string]any{"cases": st.cases, "signatures_verified": st.verified, "callbacks_checked": st.callbacks, "failing_signers": st.failures,
		"variants": st.variants, "gpg_available": gpgHome != "", "distinct": len(st.distinct), "distinct_nontrivial": len(st.distinct), "samples": st.samples})
}
