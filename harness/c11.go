package main

// C11 cases: histories of validate / conventional-file-name / package operations on ONE parsed configuration.
// After every operation: its output against the output of the same operation on a freshly parsed copy, and a
// deep snapshot of the whole parsed configuration against the snapshot taken before the first operation. At the
// end: Config.Get(f) for every format against the fresh one.

import (
	"encoding/hex"
	"encoding/json"
	"fmt"
	"math/rand"
	"os"
	"os/exec"
	"reflect"
	"strings"
	"time"

	"github.com/goreleaser/nfpm/v2"
	"github.com/goreleaser/nfpm/v2/files"
)

type histDesc struct {
	YAML  string      `json:"yaml"`
	Files []extraFile `json:"files"`
	Ops   []string    `json:"ops"`
}

func parseDoc(doc string) (*nfpm.Config, error) {
	c, err := nfpm.ParseWithEnvMapping(strings.NewReader(doc), func(string) string { return "" })
	return &c, err
}

// runOp performs one operation on cfg and renders what it produced
func runOp(cfg *nfpm.Config, op string) string {
	kind, format, _ := strings.Cut(op, ":")
	switch kind {
	case "validate":
		return "validate:" + fmt.Sprint(cfg.Validate())
	case "name":
		info, err := cfg.Get(format)
		if err != nil {
			return "name-err:" + err.Error()
		}
		info = nfpm.WithDefaults(info)
		p, err := nfpm.Get(format)
		if err != nil {
			return "name-err:" + err.Error()
		}
		return "name:" + p.ConventionalFileName(info)
	case "pkg":
		raw, err := packageShared(cfg, format)
		if err != nil {
			return "pkg-err:" + classifyPkgErr(err)
		}
		return "pkg:" + hexsum(sha256b, raw)
	}
	return "?"
}

type c11Stats struct {
	cases, ops, pkgOK int
	lengths          map[int]int
	kinds            map[string]int
	distinct         map[string]struct{}
	samples          []string
}

func runC11Case(w *caseWriter, id string, d histDesc, st *c11Stats) {
	writeDesc(id, d)
	writeExtraFiles(d.Files)
	defer removeExtraFiles(d.Files)
	w.line("hcase %s", id)
	shared, err := parseDoc(d.YAML)
	if err != nil {
		w.line("hparse err")
		w.line("hend")
		st.cases++
		return
	}
	snap0 := tokensOf(*shared)
	w.line("hconfig %s", snap0)
	// which reference cells of a Get result are the parsed configuration's own cells (by address)
	for _, f := range allFormats {
		c, _ := parseDoc(d.YAML)
		cells := map[uintptr]bool{}
		collectCells(reflect.ValueOf(c).Elem(), cells)
		info, err := c.Get(f)
		if err != nil {
			continue
		}
		var al []string
		inlineAliases(reflect.ValueOf(info).Elem(), "Info", cells, &al)
		w.line("halias %s %s", xs(f), strings.Join(al, " "))
	}
	for i, op := range d.Ops {
		want := freshProcessOutput(d.YAML, op)
		got := runOp(shared, op)
		snap := tokensOf(*shared)
		w.line("hop %d %s %d %d %s %s", i, xs(op), b2i(got == want), b2i(snap == snap0), xs(got), xs(want))
		if snap != snap0 {
			w.line("hchanged %d %s", i, xs(firstTokenDiff(snap0, snap)))
		}
		st.ops++
		kind, _, _ := strings.Cut(op, ":")
		st.kinds[kind]++
		if strings.HasPrefix(got, "pkg:") {
			st.pkgOK++
		}
	}
	for _, f := range allFormats {
		a, ea := shared.Get(f)
		fr, _ := parseDoc(d.YAML)
		b, eb := fr.Get(f)
		same := (ea == nil) == (eb == nil)
		if same && ea == nil {
			same = tokensOf(*a) == tokensOf(*b)
		}
		w.line("hget %s %d", xs(f), b2i(same))
	}
	w.line("hend")
	st.cases++
	st.lengths[len(d.Ops)]++
	st.distinct[hexsum(sha256b, []byte(d.YAML+strings.Join(d.Ops, ",")))] = struct{}{}
	if len(st.samples) < 3 {
		st.samples = append(st.samples, id+": "+strings.Join(d.Ops, " "))
	}
}

func cellAddr(v reflect.Value) (uintptr, bool) {
	switch v.Kind() {
	case reflect.Ptr:
		if v.IsNil() {
			return 0, false
		}
		return v.Pointer(), true
	case reflect.Slice, reflect.Map:
		if v.Len() == 0 {
			return 0, false
		}
		return v.Pointer(), true
	}
	return 0, false
}

// collectCells records the address of every pointer target, slice backing array and map reachable from v
func collectCells(v reflect.Value, set map[uintptr]bool) {
	switch v.Kind() {
	case reflect.Ptr:
		if a, ok := cellAddr(v); ok && !set[a] {
			set[a] = true
			collectCells(v.Elem(), set)
		}
	case reflect.Slice:
		if a, ok := cellAddr(v); ok {
			set[a] = true
			for i := 0; i < v.Len(); i++ {
				collectCells(v.Index(i), set)
			}
		}
	case reflect.Map:
		if a, ok := cellAddr(v); ok {
			set[a] = true
			for _, k := range v.MapKeys() {
				collectCells(v.MapIndex(k), set)
			}
		}
	case reflect.Struct:
		if v.Type().String() == "time.Time" {
			return
		}
		for i := 0; i < v.NumField(); i++ {
			if v.Type().Field(i).IsExported() {
				collectCells(v.Field(i), set)
			}
		}
	}
}

// inlineAliases lists the reference fields reachable through structs only, each with whether its cell is in set
func inlineAliases(v reflect.Value, path string, set map[uintptr]bool, out *[]string) {
	switch v.Kind() {
	case reflect.Ptr, reflect.Slice, reflect.Map:
		if a, ok := cellAddr(v); ok {
			*out = append(*out, xs(path), fmt.Sprint(b2i(set[a])))
		}
	case reflect.Struct:
		if v.Type().String() == "time.Time" {
			return
		}
		for i := 0; i < v.NumField(); i++ {
			f := v.Type().Field(i)
			if f.IsExported() && f.Type.Kind() != reflect.Func {
				inlineAliases(v.Field(i), path+"/"+f.Name, set, out)
			}
		}
	}
}

// freshProcessOutput: the operation on a freshly parsed configuration in ANOTHER process, so that nothing an
// earlier operation left behind in this process (package-level caches, pools) can reach the reference
var (
	freshCache = map[string]string{}
	freshSpawn int
)

func freshProcessOutput(doc, op string) string {
	key := hexsum(sha256b, []byte(doc)) + "|" + op
	if v, ok := freshCache[key]; ok {
		return v
	}
	self, err := os.Executable()
	must(err)
	must(os.WriteFile(".fresh.yaml", []byte(doc), 0o644))
	out, err := exec.Command(self, "OP", ".fresh.yaml", op).Output()
	os.Remove(".fresh.yaml")
	v := string(out)
	if err != nil {
		v = "fresh-process-failed: " + err.Error()
	}
	freshSpawn++
	freshCache[key] = v
	return v
}

// firstTokenDiff names where two token strings first differ, with a little context
func firstTokenDiff(a, b string) string {
	ta, tb := strings.Fields(a), strings.Fields(b)
	for i := 0; i < len(ta) && i < len(tb); i++ {
		if ta[i] != tb[i] {
			ctx := ""
			// the closest preceding field names
			n := 0
			for j := i - 1; j >= 0 && n < 4; j-- {
				if strings.HasPrefix(ta[j], "x") && len(ta[j]) > 1 {
					if s, err := unhexStr(ta[j][1:]); err == nil && isIdent(s) {
						ctx = s + " " + ctx
						n++
					}
				}
			}
			return fmt.Sprintf("near %s: %s -> %s", strings.TrimSpace(ctx), showTok(ta[i]), showTok(tb[i]))
		}
	}
	return "lengths differ"
}

func unhexStr(h string) (string, error) {
	b, err := hex.DecodeString(h)
	return string(b), err
}

func isIdent(s string) bool {
	if s == "" || s[0] < 'A' || s[0] > 'Z' {
		return false
	}
	for _, c := range s {
		if !(c >= 'a' && c <= 'z' || c >= 'A' && c <= 'Z' || c >= '0' && c <= '9') {
			return false
		}
	}
	return true
}

func showTok(t string) string {
	if strings.HasPrefix(t, "x") {
		if s, err := unhexStr(t[1:]); err == nil {
			return fmt.Sprintf("%q", s)
		}
	}
	return t
}

func permutations(xs []string) [][]string {
	if len(xs) <= 1 {
		return [][]string{append([]string{}, xs...)}
	}
	var out [][]string
	for i := range xs {
		rest := append(append([]string{}, xs[:i]...), xs[i+1:]...)
		for _, p := range permutations(rest) {
			out = append(out, append([]string{xs[i]}, p...))
		}
	}
	return out
}

func allOps() []string {
	ops := []string{"validate"}
	for _, f := range allFormats {
		ops = append(ops, "name:"+f)
	}
	for _, f := range allFormats {
		ops = append(ops, "pkg:"+f)
	}
	return ops
}

func cmdC11(tier string, seed int64, out, statsOut, replay string) {
	_, cleanup := pkgWorkdir()
	defer cleanup()
	w := newCaseWriter(out)
	st := &c11Stats{lengths: map[int]int{}, kinds: map[string]int{}, distinct: map[string]struct{}{}}
	if replay != "" {
		readDescs(replay, func(id string, raw json.RawMessage) {
			var d histDesc
			must(json.Unmarshal(raw, &d))
			runC11Case(w, id, d, st)
		})
		w.close()
		writeJSON(statsOut, map[string]any{"cases": st.cases})
		return
	}
	rng := rand.New(rand.NewSource(seed))
	g := &pkgGen{rng: rng}
	ops := allOps()
	var pkgs []string
	for _, f := range allFormats {
		pkgs = append(pkgs, "pkg:"+f)
	}
	perms := permutations(pkgs)
	nCfg := 3
	if tier != "quick" {
		nCfg = 12
	}
	for ci := 0; ci < nCfg; ci++ {
		gen := withRpmOnlyCollision(histConfig(g, ci), ci)
		doc := marshalConfig(&gen.cfg)
		// every ordered pair of operations (121): whatever one operation leaks, every possible next one sees
		for _, a := range ops {
			for _, b := range ops {
				if tier == "quick" && rng.Intn(3) != 0 {
					continue
				}
				runC11Case(w, fmt.Sprintf("pair-%d-%s-%s", ci, a, b), histDesc{YAML: doc, Files: gen.files, Ops: []string{a, b, a}}, st)
			}
		}
		// all 120 orders of the five packagings
		for pi, p := range perms {
			if tier == "quick" && rng.Intn(8) != 0 {
				continue
			}
			runC11Case(w, fmt.Sprintf("perm-%d-%d", ci, pi), histDesc{YAML: doc, Files: gen.files, Ops: p}, st)
		}
	}
	// configurations one format cannot be built from (an entry addressed to it whose source is missing, or two of its
	// entries at one place): validation and that format's packaging fail, and leave everything as it was for the others
	for bi, broken := range []string{"rpm", "deb", "archlinux"} {
		gen := histConfig(g, 50+bi)
		if bi%2 == 0 {
			gen.cfg.Contents = append(gen.cfg.Contents, &files.Content{Source: "src/not-there-for-" + broken, Destination: "/opt/broken/missing", Packager: broken})
		} else {
			gen.cfg.Contents = append(gen.cfg.Contents, &files.Content{Source: "src/f1", Destination: "/opt/broken/twice", Packager: broken},
				&files.Content{Source: "src/d/*", Destination: "/opt/broken/glob/"},
				&files.Content{Source: "src/f2", Destination: "/opt/broken/twice", Packager: broken})
		}
		doc := marshalConfig(&gen.cfg)
		k := 0
		for _, first := range []string{"validate", "pkg:" + broken, "name:" + broken} {
			for _, f := range allFormats {
				k++
				runC11Case(w, fmt.Sprintf("broken-%s-%d", broken, k), histDesc{YAML: doc, Files: gen.files, Ops: []string{first, "pkg:" + f, "validate", "pkg:" + f}}, st)
			}
		}
		runC11Case(w, fmt.Sprintf("broken-%s-all", broken), histDesc{YAML: doc, Files: gen.files, Ops: append(append([]string{"validate"}, pkgs...), "validate")}, st)
	}
	// random longer histories over fresh configurations
	n := 25
	if tier != "quick" {
		n = 300
	}
	for i := 0; i < n; i++ {
		gen := withRpmOnlyCollision(histConfig(g, 100+i), 100+i)
		l := 2 + rng.Intn(9)
		var seq []string
		for j := 0; j < l; j++ {
			seq = append(seq, ops[rng.Intn(len(ops))])
		}
		runC11Case(w, fmt.Sprintf("rand-%d", i), histDesc{YAML: marshalConfig(&gen.cfg), Files: gen.files, Ops: seq}, st)
	}
	w.close()
	writeJSON(statsOut, map[string]any{"cases": st.cases, "operations": st.ops, "packages_built": st.pkgOK, "reference_processes": freshSpawn, "history_lengths": st.lengths, "operation_kinds": st.kinds,
		"distinct": len(st.distinct), "distinct_nontrivial": len(st.distinct), "samples": st.samples})
}

// histConfig: a generated configuration with what the property's anchors name as shared between formats:
// entries without file_info of every type, custom field maps, per-format architectures, override blocks, key ids
func histConfig(g *pkgGen, i int) *genOut {
	g0 := g.config(i)
	gen := &g0
	c := &gen.cfg
	if c.Overrides == nil {
		c.Overrides = map[string]*nfpm.Overridables{}
	}
	// what depends on per-format settings while being planned: a tree without explicit modes next to per-format umasks
	if i%3 == 0 {
		c.Contents = append(c.Contents, &files.Content{Source: "src/k", Destination: fmt.Sprintf("/opt/hist%d/tree", i), Type: "tree"})
		c.Umask = 0o022
		c.Overrides[allFormats[g.rng.Intn(len(allFormats))]] = &nfpm.Overridables{Umask: 0o077}
	}
	// an entry that needs no defaults at all: type, owner, group, mode and mtime are all configured
	if i%3 != 1 {
		c.Contents = append(c.Contents, &files.Content{Destination: fmt.Sprintf("/var/lib/hist%d/complete", i), Type: "dir",
			FileInfo: &files.ContentFileInfo{Owner: "svc", Group: "svc", Mode: 0o750, MTime: time.Unix(1500000000, 0).UTC()}})
	}
	// spellings a packager may want to tidy up - a source with a trailing slash, a destination with a ".." that stays below the
	// root: whatever is tidied is the build's own copy
	c.Contents = append(c.Contents, &files.Content{Source: "src/h/", Destination: fmt.Sprintf("/opt/hist%d/tidy-tree", i), Type: "tree"},
		&files.Content{Source: "src/e", Destination: "", Type: "tree"},
		&files.Content{Source: "src/lnk2", Destination: fmt.Sprintf("/opt/hist%d/through-two-links", i), Type: "tree"},
		&files.Content{Source: "src/f2", Destination: fmt.Sprintf("/opt/hist%d/up/../down/f2", i)})
	// destinations below directories some distributions turn into links (/sbin, /lib): what one format makes of them is its own
	c.Contents = append(c.Contents, &files.Content{Source: "src/f1", Destination: fmt.Sprintf("/sbin/hist%d-tool", i)},
		&files.Content{Source: "src/f2", Destination: fmt.Sprintf("/lib/hist%d/plugin.so", i), FileInfo: &files.ContentFileInfo{Mode: 0o755, Owner: "root", Group: "root"}})
	// an override block whose contents name the destination of a top-level entry with other attributes
	if i%3 == 2 {
		f := allFormats[i%len(allFormats)]
		ov := c.Overrides[f]
		if ov == nil {
			ov = &nfpm.Overridables{}
			c.Overrides[f] = ov
		}
		ov.Contents = append(ov.Contents, &files.Content{Source: "src/f2", Destination: fmt.Sprintf("/lib/hist%d/plugin.so", i), FileInfo: &files.ContentFileInfo{Mode: 0o750, Owner: "root", Group: "wheel"}},
			&files.Content{Source: "src/f1", Destination: fmt.Sprintf("/usr/bin/hist%d-only-here", i)})
	}
	// a symbolic link with every file_info field configured whose target exists on the build host (planning looks at
	// the target: whatever it learns belongs to the build, not to the parsed configuration)
	if i%3 != 1 {
		c.Contents = append(c.Contents, &files.Content{Source: "src/f1", Destination: fmt.Sprintf("/var/lib/hist%d/live-link", i), Type: "symlink",
			FileInfo: &files.ContentFileInfo{Owner: "svc", Group: "svc", Mode: 0o777, MTime: time.Unix(1500000000, 0).UTC()}})
	}
	// lists of different settings that name the same package (a packager may reconcile them - on its own copy)
	if i%3 != 2 {
		// (names with capitals, blanks around the operator, a tab: what a packager may want to tidy up for its own format)
		c.Depends = append(c.Depends, "shared-dep", "NetworkManager", "Foo-Tool  >=\t1.0", "zz-last")
		c.Provides = append(c.Provides, "Virtual-Thing = 2")
		c.Conflicts = append(c.Conflicts, "OldName (<< 3)")
		c.Replaces = append(c.Replaces, "OldName")
		c.IPK.Predepends = append(c.IPK.Predepends, "shared-dep")
		c.Deb.Predepends = append(c.Deb.Predepends, "shared-dep")
		c.Recommends = append(c.Recommends, "shared-dep")
	}
	for _, f := range allFormats {
		if _, has := c.Overrides[f]; !has && g.rng.Intn(2) == 0 {
			ov := &nfpm.Overridables{}
			switch g.rng.Intn(4) {
			case 0:
				ov.Depends = []string{"only-" + f}
			case 1:
				ov.Umask = 0o027
			case 2:
				ov.Scripts.PostInstall = "scripts/postinstall"
			case 3:
				ov.Deb.Fields = map[string]string{"X-For": f}
				ov.IPK.Fields = map[string]string{"X-For": f}
			}
			c.Overrides[f] = ov
		}
	}
	// configuration files with the flavours only rpm tells apart (every other format reads them as plain config)
	c.Contents = append(c.Contents,
		&files.Content{Source: "src/d/x", Destination: fmt.Sprintf("/etc/hist%d/keep.conf", i), Type: files.TypeConfigNoReplace},
		&files.Content{Source: "src/f1", Destination: fmt.Sprintf("/etc/hist%d/optional.conf", i), Type: files.TypeConfigMissingOK})
	// entries addressed to a packager in a spelling the packagers do not recognise (they belong to nobody), next to
	// properly addressed ones: nothing may "tidy" the tag on the shared entry
	c.Contents = append(c.Contents,
		&files.Content{Source: "src/f1", Destination: fmt.Sprintf("/opt/hist%d/for-RPM", i), Packager: "RPM"},
		&files.Content{Source: "src/f1", Destination: fmt.Sprintf("/opt/hist%d/for-deb-padded", i), Packager: " deb "},
		&files.Content{Source: "src/f1", Destination: fmt.Sprintf("/opt/hist%d/for-rpm", i), Packager: "rpm"})
	// a list that lost an item while being parsed (the item expands to nothing): its backing array has room to spare,
	// which is when an in-place insertion by a packager shows in the parsed configuration
	c.Depends = append([]string{"${VERIF_EXPANDS_TO_NOTHING}"}, c.Depends...)
	c.Suggests = append(c.Suggests, "${VERIF_EXPANDS_TO_NOTHING}")
	if i%2 == 0 {
		for _, sc := range []*string{&c.Deb.Scripts.Templates, &c.Deb.Scripts.Config} {
			if *sc == "" {
				*sc = "scripts/postinstall"
			}
		}
	}
	// the script an override block names exists whether or not the base configuration uses it
	has := false
	for _, f := range gen.files {
		has = has || f.Path == "scripts/postinstall"
	}
	if !has {
		gen.files = append(gen.files, extraFile{Path: "scripts/postinstall", Hex: hex.EncodeToString([]byte("#!/bin/sh\necho postinstall from an override block\n")), Mode: 0o755, MTime: 1650000001})
	}
	return gen
}

// withRpmOnlyCollision: a pattern entry whose match collides with an earlier entry that only rpm ships: rpm's packaging
// fails, the others' succeed - and the failure leaves nothing behind in the shared configuration. (Added by the history
// check only, to every second configuration: the concurrency check's signed cases need every format to build, and in the
// configurations another format cannot be built from, which of two failures validation reports first is not fixed.)
func withRpmOnlyCollision(gen *genOut, i int) *genOut {
	if i%2 == 0 {
		gen.cfg.Contents = append(gen.cfg.Contents,
			&files.Content{Source: "src/f1", Destination: fmt.Sprintf("/usr/share/hist%d/x", i), Packager: "rpm"},
			&files.Content{Source: "src/d/*", Destination: fmt.Sprintf("/usr/share/hist%d/", i)})
	}
	return gen
}
