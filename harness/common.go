package main

import (
	"bufio"
	"encoding/hex"
	"errors"
	"fmt"
	"io/fs"
	"os"
	"strings"

	"github.com/goreleaser/nfpm/v2/files"
)

// token encoding shared with the OCaml driver: strings are x<hex>, numbers decimal
func xs(s string) string { return "x" + hex.EncodeToString([]byte(s)) }

type caseWriter struct {
	w *bufio.Writer
	f *os.File
}

func newCaseWriter(path string) *caseWriter {
	f, err := os.Create(path)
	if err != nil {
		panic(err)
	}
	return &caseWriter{w: bufio.NewWriterSize(f, 1<<20), f: f}
}

func (c *caseWriter) line(format string, a ...any) {
	fmt.Fprintf(c.w, format, a...)
	c.w.WriteByte('\n')
}

func (c *caseWriter) close() {
	c.w.Flush()
	c.f.Close()
}

func b2i(b bool) int {
	if b {
		return 1
	}
	return 0
}

// error classes shared with the model (Model/Content.v err)
func classify(err error) string {
	switch {
	case err == nil:
		return "ok"
	case errors.Is(err, files.ErrContentCollision):
		return "collision"
	case errors.Is(err, fs.ErrNotExist):
		return "notexist"
	case strings.Contains(err.Error(), "no matching files"):
		return "globnomatch"
	case strings.Contains(err.Error(), "invalid content type"):
		return "invalidtype"
	case strings.Contains(err.Error(), "glob failed"):
		return "globother"
	case strings.Contains(err.Error(), "add tree"):
		return "walk"
	default:
		return "other"
	}
}

func must(err error) {
	if err != nil {
		panic(err)
	}
}
